"""Shared machinery of /verif/bin/check: running TLC / Apalache / the Rust harnesses,
known findings, evidence and replay files.  Exit codes: 0 held, 1 violation, 2 tool error."""
import hashlib, json, os, re, shutil, subprocess, sys, time

ROOT = os.path.dirname(os.path.dirname(os.path.abspath(__file__)))
SPEC = os.path.join(ROOT, "spec")
HARNESS = os.path.join(ROOT, "harness")
HARNESS_BEVY = os.path.join(ROOT, "harness_bevy")
JAR = "/opt/veriftools/tla/tla2tools.jar"


class ToolError(Exception):
    pass


class Ctx:
    """One run of one property's check."""

    def __init__(self, pid, tier, seed):
        self.pid, self.tier, self.seed = pid, tier, seed
        self.t0 = time.time()
        self.scratch = os.path.join(ROOT, ".scratch", "%s-%d" % (pid, os.getpid()))
        shutil.rmtree(self.scratch, ignore_errors=True)
        os.makedirs(self.scratch)
        self.violations = []      # dicts: what, detail
        self.known = []           # known findings reproduced
        self.notes = []
        self.tlc_runs = []
        self.states = 0
        self.transitions = 0
        self.traces = 0           # behaviours replayed into / validated against the implementation
        self.evaluations = 0
        self.samples = []
        self.extra = {}
        self.assumptions = []
        self.findings = load_findings()

    def quick(self):
        return self.tier == "quick"

    def path(self, name):
        return os.path.join(self.scratch, name)

    def note(self, s):
        self.notes.append(s)
        print("NOTE " + s)

    def sample(self, s):
        if len(self.samples) < 6:
            self.samples.append(s)

    # ---- violations and known findings -------------------------------------------------
    def violation(self, what, detail):
        """Record a violation unless it matches an open known finding."""
        for f in self.findings:
            if f.get("status") == "open" and f.get("property") == self.pid and finding_matches(f, detail):
                if f["id"] not in [k["id"] for k in self.known]:
                    self.known.append(f)
                return
        self.violations.append({"what": what, "detail": detail})

    def finish(self, level, rule, explanation=None):
        wall = time.time() - self.t0
        cov = {
            "states": self.states, "transitions": self.transitions,
            "traces_validated_against_impl": self.traces,
            "evaluations": self.evaluations,
            "samples": self.samples if self.samples else ["(none)"],
            "rule": rule, "tlc_runs": self.tlc_runs, "notes": self.notes[:20],
            "known_findings_reproduced": [k["id"] for k in self.known],
        }
        cov.update(self.extra)
        if explanation:
            cov["explanation"] = explanation
        ev = {"property_id": self.pid, "tier": self.tier, "seed": self.seed, "level": level,
              "coverage": cov, "assumptions": self.assumptions, "wall_s": round(wall, 2),
              "violations": len(self.violations)}
        os.makedirs(os.path.join(ROOT, "evidence"), exist_ok=True)
        with open(os.path.join(ROOT, "evidence", self.pid + ".json"), "w") as f:
            json.dump(ev, f, indent=1, default=str)
        for k in self.known:
            print("KNOWN-FINDING: property=%s %s" % (self.pid, k["what"]))
        rc = 0
        if self.violations:
            os.makedirs(os.path.join(ROOT, "replays"), exist_ok=True)
            for v in self.violations[:5]:
                blob = json.dumps(v, sort_keys=True, default=str)
                h = hashlib.sha1(blob.encode()).hexdigest()[:10]
                p = os.path.join(ROOT, "replays", "%s-%s.json" % (self.pid, h))
                with open(p, "w") as f:
                    json.dump({"property": self.pid, "tier": self.tier, "seed": self.seed, **v}, f, indent=1, default=str)
                print("VIOLATION property=%s replay=%s" % (self.pid, p))
                print("  " + v["what"] + ": " + blob[:600])
            rc = 1
        shutil.rmtree(self.scratch, ignore_errors=True)
        print("%s %s tier=%s states=%d traces=%d evals=%d wall=%.1fs" % (
            "FAIL" if rc else "OK", self.pid, self.tier, self.states, self.traces, self.evaluations, wall))
        return rc


def load_findings():
    p = os.path.join(ROOT, "known_findings.json")
    if not os.path.exists(p):
        return []
    return json.load(open(p))


def finding_matches(f, detail):
    m = f.get("match", {})
    return all(str(detail.get(k)) == str(v) for k, v in m.items())


# ---- TLC ------------------------------------------------------------------------------
STATS_RE = re.compile(r"(\d[\d,]*) states generated, (\d[\d,]*) distinct states found")
SIM_RE = re.compile(r"The number of states generated: (\d[\d,]*)")


def run_tlc(ctx, module, cfg, workers=4, simulate=None, expect_violation=None, timeout=900,
            env_extra=None, capture="out.txt", java_opts=None, depth_first=False, subst=None):
    """Runs TLC on spec/<module>.tla with spec/<cfg>.  Returns dict(out=path, states, distinct, violated).
    expect_violation: name of an invariant that MUST be reported violated (negative control)."""
    out = ctx.path(capture)
    meta = ctx.path("tlc-" + cfg.replace(".cfg", ""))
    # the run's seed is substituted for the Seed constant of generator configs
    cfg_txt = open(os.path.join(SPEC, cfg)).read()
    subst = dict(subst or {})
    if re.search(r"^\s*Seed = \d+", cfg_txt, re.M):
        subst.setdefault("Seed", ctx.seed % 60000)
    if subst:
        for k, v in subst.items():
            rhs = ("%s %s" % (k, v)) if str(v).startswith("<-") else ("%s = %s" % (k, v))
            cfg_txt, n = re.subn(r"^(\s*)%s (=|<-) .*$" % k, r"\g<1>" + rhs, cfg_txt, flags=re.M)
            if n != 1:
                raise ToolError("constant %s not found in %s" % (k, cfg))
        cfg_path = ctx.path(cfg)
        open(cfg_path, "w").write(cfg_txt)
    else:
        cfg_path = cfg
    cmd = ["java", "-XX:+UseParallelGC", "-Xmx8g"]
    if java_opts:
        cmd += java_opts
    if depth_first:
        cmd += ["-Dtlc2.tool.queue.IStateQueue=StateDeque"]
    cmd += ["-cp", JAR + ":/opt/veriftools/tla/CommunityModules-deps.jar", "tlc2.TLC",
            "-workers", str(workers), "-metadir", meta, "-cleanup", "-noGenerateSpecTE",
            "-config", cfg_path]
    if simulate:
        cmd += ["-simulate", simulate, "-seed", str(ctx.seed)]
    cmd += [module + ".tla"]
    env = dict(os.environ)
    if env_extra:
        env.update(env_extra)
    t0 = time.time()
    with open(out, "w") as fo:
        try:
            p = subprocess.run(cmd, cwd=SPEC, stdout=fo, stderr=subprocess.STDOUT, timeout=timeout, env=env)
        except subprocess.TimeoutExpired:
            raise ToolError("TLC timed out on %s/%s" % (module, cfg))
    shutil.rmtree(meta, ignore_errors=True)
    txt_tail = tail(out, 60000)
    gen = distinct = 0
    m = STATS_RE.findall(txt_tail)
    if m:
        gen, distinct = [int(x.replace(",", "")) for x in m[-1]]
    else:
        m2 = SIM_RE.findall(txt_tail)
        if m2:
            gen = distinct = int(m2[-1].replace(",", ""))
    violated = re.findall(r"Invariant (\w+) is violated", txt_tail) + \
        re.findall(r"Action property (\w+) is violated", txt_tail)
    errored = ("Error:" in txt_tail) and not violated
    run = {"module": module, "cfg": cfg, "constants": {k: str(v) for k, v in subst.items()}, "generated": gen, "distinct": distinct,
           "violated": violated, "wall_s": round(time.time() - t0, 1)}
    ctx.tlc_runs.append(run)
    if errored or (p.returncode not in (0, 12, 13) and not violated):
        raise ToolError("TLC failed on %s/%s (rc=%s): %s" % (module, cfg, p.returncode, err_excerpt(txt_tail)))
    if expect_violation:
        if expect_violation not in violated:
            raise ToolError("negative control %s/%s: expected %s to be violated (vacuity guard)" % (module, cfg, expect_violation))
        run["negative_control"] = True
    else:
        ctx.states += distinct
        ctx.transitions += gen
        if violated:
            ctx.violation("TLC: invariant violated in the model", {"module": module, "cfg": cfg, "invariant": violated[0],
                                                                    "trace": err_excerpt(txt_tail)})
    run["out"] = out
    return run


def tail(path, n):
    with open(path, "rb") as f:
        f.seek(0, 2)
        size = f.tell()
        f.seek(max(0, size - n))
        return f.read().decode("utf-8", "replace")


def err_excerpt(txt):
    i = txt.find("Error:")
    return txt[i:i + 1500] if i >= 0 else txt[-800:]


# ---- Apalache -------------------------------------------------------------------------
def run_apalache(ctx, module, inv, cinit="CInit", length=0, expect_violation=False, timeout=600, init=None):
    outdir = ctx.path("apalache-" + inv)
    cmd = ["apalache-mc", "check", "--cinit=" + cinit, "--inv=" + inv, "--length=%d" % length,
           "--out-dir=" + outdir, "--run-dir=" + outdir]
    if init:
        cmd.append("--init=" + init)
    cmd.append(module + ".tla")
    t0 = time.time()
    try:
        p = subprocess.run(cmd, cwd=SPEC, capture_output=True, text=True, timeout=timeout)
    except subprocess.TimeoutExpired:
        raise ToolError("Apalache timed out on %s %s" % (module, inv))
    shutil.rmtree(outdir, ignore_errors=True)
    ok = "The outcome is: NoError" in p.stdout
    bad = "The outcome is: Error" in p.stdout
    if not ok and not bad:
        raise ToolError("Apalache failed on %s %s: %s" % (module, inv, (p.stdout + p.stderr)[-1200:]))
    res = {"module": module, "inv": inv, "length": length, "ok": ok, "wall_s": round(time.time() - t0, 1)}
    ctx.extra.setdefault("apalache_runs", []).append(res)
    if expect_violation:
        if ok:
            raise ToolError("Apalache negative control %s %s unexpectedly passed" % (module, inv))
        res["negative_control"] = True
    elif bad:
        ctx.violation("Apalache: invariant violated in the model", {"module": module, "invariant": inv})
    return res


# ---- Rust harness -----------------------------------------------------------------------
_built = set()


def build_harness(which=HARNESS, release=False):
    key = (which, release)
    if key in _built:
        return
    cmd = ["cargo", "build", "--offline", "--quiet"] + (["--release"] if release else [])
    p = subprocess.run(cmd, cwd=which, capture_output=True, text=True, timeout=1800)
    if p.returncode != 0:
        raise ToolError("cargo build failed in %s:\n%s" % (which, p.stderr[-3000:]))
    _built.add(key)


def run_harness(args, which=HARNESS, release=False, timeout=1800, binary=None):
    build_harness(which, release)
    exe = os.path.join(which, "target", "release" if release else "debug", binary or os.path.basename(which))
    p = subprocess.run([exe] + [str(a) for a in args], capture_output=True, text=True, timeout=timeout)
    if p.returncode != 0:
        raise ToolError("harness %s failed rc=%d: %s" % (args, p.returncode, p.stderr[-2000:]))
    last = [l for l in p.stdout.strip().split("\n") if l.startswith("{")]
    if not last:
        raise ToolError("harness %s printed no report: %s" % (args, p.stdout[-500:]))
    return json.loads(last[-1])


def replay_lines(path):
    """Yields the JSON objects of REPLAY lines in a TLC output file."""
    with open(path) as f:
        for l in f:
            if l.startswith('<<"REPLAY", '):
                yield json.loads(json.loads(l.strip()[len('<<"REPLAY", '):-2]))


def count_replay(path):
    n = 0
    with open(path) as f:
        for l in f:
            if l.startswith('<<"REPLAY", '):
                n += 1
    return n


def run_trace(ctx, module, trace_path, cfg=None, timeout=900, xss="1g"):
    """Trace validation (leg B): TLC checks that the ndjson log recorded from the real code is a
    behaviour of the trace spec.  Returns (accepted, rejected_record_text, states)."""
    cfg = cfg or module + ".cfg"
    run = None
    out = ctx.path("trace-" + module + ".txt")
    meta = ctx.path("tlc-trace-" + module)
    cmd = ["java", "-XX:+UseParallelGC", "-Xmx6g", "-Xss" + xss, "-Dtlc2.tool.queue.IStateQueue=StateDeque",
           "-cp", JAR + ":/opt/veriftools/tla/CommunityModules-deps.jar", "tlc2.TLC", "-workers", "1",
           "-metadir", meta, "-cleanup", "-noGenerateSpecTE", "-config", cfg, module + ".tla"]
    env = dict(os.environ)
    env["TRACE"] = trace_path
    t0 = time.time()
    with open(out, "w") as fo:
        try:
            p = subprocess.run(cmd, cwd=SPEC, stdout=fo, stderr=subprocess.STDOUT, timeout=timeout, env=env)
        except subprocess.TimeoutExpired:
            raise ToolError("TLC trace validation timed out on %s" % module)
    shutil.rmtree(meta, ignore_errors=True)
    txt = tail(out, 40000)
    m = STATS_RE.findall(txt)
    gen = distinct = 0
    if m:
        gen, distinct = [int(x.replace(",", "")) for x in m[-1]]
    rej = re.findall(r'<<\s*"REJECTED",\s*(.*?)>>\s+FALSE', txt, re.S)
    rej = [re.sub(r"\s+", " ", x) for x in rej]
    if not rej and re.search(r"Postcondition PostAccepted .* is false", txt):
        rej = ["(record not printed) " + err_excerpt(txt)[:600]]
    accepted = ("Postcondition" not in txt) and ("Error:" not in txt) and distinct > 0
    run = {"module": module, "cfg": cfg, "generated": gen, "distinct": distinct, "trace": os.path.basename(trace_path),
           "accepted": accepted, "wall_s": round(time.time() - t0, 1)}
    ctx.tlc_runs.append(run)
    if not accepted and not rej:
        raise ToolError("TLC trace validation failed on %s: %s" % (module, err_excerpt(txt)))
    ctx.states += distinct
    ctx.transitions += gen
    drift = len(re.findall(r'<<"DRIFT"', tail(out, 400000)))
    if drift:
        run["drift"] = drift
        ctx.note("drift=%d: observations of an internal helper differ from the implementation-shaped spec while the observable behaviour agrees (%s)" % (drift, module))
    return accepted, (rej[0][:1500] if rej else None), distinct
