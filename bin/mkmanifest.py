#!/usr/bin/env python3
"""Regenerates /verif/MANIFEST.json from the table below (kept valid at all times)."""
import json, os, sys
ROOT = os.path.dirname(os.path.dirname(os.path.abspath(__file__)))
sys.path.insert(0, os.path.join(ROOT, "bin"))

TECH = "TLA+ spec checked by TLC%s; bound to the code by replaying TLC-generated behaviours into the real API (leg A)%s"
LEVEL = {
 "C01": ("model_checking", "6 C01", "Refinement ImplSeg => DesignSeg model-checked for every keyframe list in bounds; every enumerated / pseudo-random builder behaviour replayed through the real builder and derive(Animate) timeline at every tick and compared with the spec's exact value terms. Right level: the property is a statement about all keyframe sets, which TLC enumerates and the replay binds to the code.",
         "bounds of the cfgs (<=3 keyframes exhaustive, <=6 pseudo-random, positions on a 1/4 or 1/8 grid); built-in easing values trusted from calc (C13); float tolerance 4e-6 relative", TECH % ("", "")),
 "C02": ("model_checking", "6 C02", "HitsExact / HoldAtEnd / Terminal invariants in the model (hold rule negative control must fail), position part unbounded in Apalache (C03), and every keyframe hit, pre-delay, end-of-pass and post-end evaluation of the replayed behaviours compared exactly (ints) / within 4 ulp (floats).",
         "same bounds as C01; exact instants are those of the dyadic tick grids", TECH % ("", "")),
 "C03": ("model_checking", "6 C03", "Apalache discharges the C03 laws for ALL integer cycle/delay/repeat/time; TLC checks them with flags for every timing x tick in bounds; TLC validates traces recorded from the real TimeScale / Timeline at exact integer-tick times incl. the f32 neighbours of every phase boundary.",
         "exact-tick regime: all quantities < 2^29 ticks of 2^e s; not every f32 bit pattern; end instant = fl(cycle*(repeats+1))", TECH % (" and Apalache (unbounded)", " and by TLC validating traces recorded from the real code (leg B)")),
 "C08": ("model_checking", "6 C08", "Untouched invariant in the model; every replayed evaluation starts from sentinel-filled targets and requires bit-identical contents for properties without keyframes, unmapped properties and non-animated fields.",
         "one struct family in this check (struct shapes are C17's)", TECH % ("", "")),
 "C10": ("model_checking", "6 C10", "StartOnly invariant for every keyframe list; FirstForward for all integers in Apalache; half of all replayed behaviours carry a start override and are compared at every tick.",
         "distinct positions per property at 0% (duplicates at 0% are left open by the property)", TECH % (" and Apalache", "")),
 "C11": ("model_checking", "6 C11", "The builder state machine adds keyframes in every order; OrderFree invariant; the as-found defect (boundary times before the sort) is a negative control that TLC must refute; every behaviour with non-ascending insertion order is replayed, and for distinct positions the same keyframes in ascending / descending / described insertion order are compared bit for bit (also through a hand-wired timeline type).",
         "<=3 keyframes exhaustive, <=40 pseudo-random", TECH % ("", "")),
 "C04": ("model_checking", "6 C04", "NoJump is an action property model-checked over all histories to the stated depth on 8 configurations (the as-found stale-pause defect is a negative control TLC must refute); every history is replayed on a real animator and current_values is compared bit for bit immediately before and after every set_state.",
         "tick >= 1/8 s exactly, tolerance passes at 1/64 s, 0.1 s and 512 ns; configuration pool of MC_Animator.tla (leg A) and random configurations (leg B); distinct keyframe positions per property", TECH % ("", " and by TLC validating logs of real animators with random configurations (leg B)")),
 "C05": ("model_checking", "6 C05", "Consistent + PauseRules model-checked over all histories; replay compares after every operation current_state, current_values against exact terms, and through the cfg(mina_verif) hook the internal clock and pause record.",
         "as C04", TECH % ("", " and by TLC validating logs of real animators with random configurations (leg B)")),
 "C06": ("model_checking", "6 C06", "In the model values are a function of (state, override, total ticks) (Consistent), so any partition gives the same result; in the replay a twin animator receives each advance split into 0 + a + b + 0 and must stay bit-identical (values, is_ended, clock, pause record), including after a 2^24-tick advance followed by single-tick frames.",
         "exactly representable steps (tick >= 1/8 s); pure float-rounding drift for non-representable steps is not decided", TECH % ("", " and by TLC validating logs of real animators with random configurations (leg B)")),
 "C07": ("model_checking", "6 C07", "EndedIff / EndedStable / TerminalWhenEnded / NeverEndedIfInfinite model-checked over all histories incl. advances landing exactly on the total duration; AfterTotalConstant unbounded in Apalache; is_ended compared after every replayed operation; endless timelines advanced until the clock saturates must never report completion.",
         "as C04; total durations on the exact tick grid (0.1 s totals in a tolerance pass)", TECH % (" and Apalache", " and by TLC validating logs of real animators with random configurations (leg B)")),
 "C18": ("model_checking", "6 C18", "Every clause of C18 is an action property of the animate step in Bevy.tla, model-checked over all schedules x system orders (phase-skip defect is a negative control); TLC-enumerated and random schedules are run in a real App and TLC validates the logs; component contents are re-evaluated with the real timelines at the predicted evaluation points.",
         "tick = 1/8 s; 7 entity configurations + random ones from a pool of 14 timelines; component values judged via the real Timeline::update before the end and against terminal values stated with the pool at or after it", TECH % ("", " and by TLC validating traces recorded from a real Bevy App (leg B)")),
 "C19": ("model_checking", "6 C19", "Select/chain steps carry the C19 clauses as action properties (untyped-event defect is a negative control); real App logs with selector, chain (incl. cycles) and one or two animated component types are validated by TLC with the system order left open.",
         "as C18; chain judged by the governed animator's state (see DESIGN)", TECH % ("", " and by TLC validating traces recorded from a real Bevy App (leg B)")),
 "C09": ("model_checking", "6 C09", "The spec's timeline object is immutable under update and its result a function of (components, override, time); TLC generates histories of update (non-monotone times, different prior target contents) / start_with / clone with predictions, replayed on real objects together with idempotence and prior-content independence checks and metadata after every operation.",
         "object shapes and value pool of MC_Objects.tla; times on the tick grid", TECH % ("", "")),
 "C12": ("model_checking", "6 C12", "OrderIrrelevant / LaterWins / SingleSame invariants in the model; aggregate metadata (min delay, max total with infinity absorbing, max repeat in the semantic order incl. Times(u32::MAX) < Infinite, cycle iff all agree) predicted for EVERY list of 0..3 components over 8 shapes and compared with real MergedTimeline objects, values at all sampled times before and after start_with.",
         "8 component shapes; equal-rank repeats (None / Times(0)) accept any maximal element", TECH % ("", "")),
 "C20": ("model_checking", "6 C20", "Unbounded repeat count in Apalache (u32 wrap is a negative control); exact-tick traces incl. Times(u32::MAX) and the f32 neighbours of every boundary recorded in debug AND release builds must be identical and accepted by TLC; object histories with huge repeat counts replayed in both profiles; supplementary arbitrary-f32 sweep (no panic, finite, in range, equal digests).",
         "domain: exact total duration representable in f32; the arbitrary-f32 sweep is an oracle-only supplement", TECH % (" and Apalache", " and by TLC validating traces recorded from the real code in both build profiles (leg B)")),
 "C13": ("model_checking", "6 C13", "Model facts on the published control points (end points, x-monotone, range/monotone for non-Back, mirror relations); each real easing is compared with the exact definition table and with the as-found parameter evaluation (known finding per Bezier easing: calc evaluates the curve at parameter t = x); the dense sweep of the real calc is validated by TLC against the laws; custom easings bit for bit, alone and as default / per-keyframe easings of a timeline.",
         "65 exact curve points per easing, tolerance 2e-4; laws on a 1/1024 grid + 2^-k neighbourhoods; open known findings listed in known_findings.json", TECH % ("", " and by TLC validating logs of the real functions (leg B)")),
 "C14": ("model_checking", "6 C14", "Laws model-checked on the exact integer model for all 8-bit pairs; every recorded result of the real lerp for all numeric types (exact values, scaled wide values up to every type limit, f32 neighbours of 0, 1/2 and 1, lerp(a,a,x), mixed magnitudes) is validated by TLC; panics are data and rejected; a result the trace specification accepts only under the as-found f32 rounding of intermediates is reported as the known finding C14-f32-intermediate-rounding.",
         "see assumptions in the evidence: exact where every f32 intermediate is exact and below 2^22 for lerp(a,a,x); one open known finding; Quat not claimed", TECH % ("", " and by TLC validating logs of the real functions (leg B)")),
 "C15": ("model_checking", "6 C15", "TLC generates sentences of the timeline! grammar with their documented Reading (invariant under reordering) and predictions; the real macro compiles every one; macro-built == builder twin bit for bit (metadata, values), == the spec's predictions, merged lists == MergedTimeline::of(twins); one ill-formed variant per class must be rejected by rustc.",
         "argument alphabet of MC_Grammar.tla; ms / half-percent grids; compile-time rejection is rustc's verdict", TECH % ("", "")),
 "C16": ("model_checking", "6 C16", "TLC generates animator! blocks, their Reading as an Animator.tla configuration and a 30-step history with predicted observations; the real macro compiles every block; macro-built animator == builder twin bit for bit after every operation, == the spec's predictions.",
         "alphabet of MC_AnimGrammar.tla; blocks inside C04's domain", TECH % ("", "")),
 "C17": ("model_checking", "6 C17", "TLC generates struct shapes with the predicted animated set and Timeline.tla evaluations; the real derive compiles every shape and the generated API is exercised on the (remote) target: values per C01 with the field's kind, untouched excluded fields, keyframe_from copy set, metadata; setter existence by rustc.",
         "shape family of MC_Shapes.tla (<= 6 fields, 6 numeric types); generics unsupported by the derive", TECH % ("", "")),
}
NA = {}
for i in range(1, 21):
    pid = "C%02d" % i
    if pid not in LEVEL:
        NA[pid] = "check not registered yet in this revision of the framework (planned, see DESIGN.md section 6)"

checks = []
for pid, (cat, ref, text, note, tech) in sorted(LEVEL.items()):
    checks.append({
        "property_id": pid,
        "quick_cmd": "bin/check %s --tier quick" % pid,
        "thorough_cmd": "bin/check %s --tier thorough" % pid,
        "evidence_file": "/verif/evidence/%s.json" % pid,
        "replay_cmd_template": "bin/check %s --replay {path}" % pid,
        "engine": "tlc",
        "level_claimed": {"category": cat, "text": text, "design_ref": "DESIGN.md section " + ref},
        "level_note": note,
        "technique": tech,
    })
man = {
    "version": 1,
    "setup_cmd": "bin/setup",
    "hooks": {"guard": "cfg(mina_verif)", "enable": "rustflags --cfg mina_verif in harness/.cargo/config.toml and gen/.cargo/config.toml (hook: MappedTimelineAnimator::verif_snapshot in core/src/animator.rs)",
              "baseline_off_cmd": "cd /repo && cargo nextest run --workspace --no-fail-fast --offline",
              "source_commits": ["8d6e84a", "e81e37b"], "add_only": True},
    "engines": [{"name": "tlc", "path": "/verif/spec", "serves_properties": sorted(LEVEL), "kind_free_text": "TLA+ specification (spec/*.tla) model-checked with TLC / Apalache, bound to /repo by bin/check via the Rust harnesses"}],
    "checks": checks,
    "not_applicable": [{"property_id": k, "reason": v} for k, v in sorted(NA.items())],
    "notes": "bin/check <ID> decides one property (exit 0 held / 1 violation + VIOLATION line + replay file / 2 tool error); open and fixed findings in known_findings.json; seeded changes (incl. equivalent ones that must not be reported) and their sweep results in seeded/; DESIGN.md section 12 describes the framework as built.",
}
json.dump(man, open(os.path.join(ROOT, "MANIFEST.json"), "w"), indent=1)
print("MANIFEST.json written:", len(checks), "checks,", len(NA), "not claimed")
