#!/usr/bin/env python3
"""Printer for the macro checks: turns the argument records TLC printed (MC_Grammar REPLAY lines) into
(a) timeline! / animator! invocations, (b) the builder twin under the documented reading.
Usage: gen_macros.py sentences <replay-file> <out-dir>"""
import json, os, sys
sys.path.insert(0, os.path.dirname(os.path.abspath(__file__)))

NAMES = ["Linear","Ease","In","Out","InOut","InSine","OutSine","InOutSine","InQuad","OutQuad","InOutQuad","InCubic","OutCubic","InOutCubic","InQuart","OutQuart","InOutQuart","InQuint","OutQuint","InOutQuint","InExpo","OutExpo","InOutExpo","InCirc","OutCirc","InOutCirc","InBack","OutBack","InOutBack"]
FIELDS = ["x", "y", "n", "m"]
TPM = 2     # ticks per millisecond in Grammar.tla


def dec(ms, div):
    """exact decimal rendering of ms/div"""
    from fractions import Fraction
    from decimal import Decimal, getcontext
    getcontext().prec = 40
    d = Decimal(ms) / Decimal(div)
    s = format(d, "f")
    if "." not in s:
        s += ".0"
    return s


def ease_path(e):
    return "Easing::" + ("Linear" if e == 1 else NAMES[e - 10])


def fields_tokens(d):
    out = []
    for i, v in enumerate(d):
        if v:
            out.append("%s: %s" % (FIELDS[i], ("%d.0" % v[0]) if i < 2 else str(v[0])))
    return "{ " + ", ".join(out) + " }"


def setters(d):
    return "".join(".%s(%s)" % (FIELDS[i], ("%d.0" % v[0]) if i < 2 else str(v[0])) for i, v in enumerate(d) if v)


def arg_tokens(a):
    k = a["k"]
    if k in ("dur", "del"):
        tk, f = a["tk"], a["form"]
        lit_s = ("%ds" % (tk // (1000 * TPM))) if tk % (1000 * TPM) == 0 else dec(tk, 1000 * TPM) + "s"
        # a whole number of milliseconds is written as an integer literal, or (one in three) as a float literal
        lit_ms = (("%d.0ms" % (tk // TPM)) if tk % 3 == 0 else ("%dms" % (tk // TPM))) if tk % TPM == 0 else dec(tk, TPM) + "ms"
        if k == "del": return "after " + (lit_s if f == "s" else lit_ms)
        if f == "s": return lit_s
        if f == "for_s": return "for " + lit_s
        if f == "ms": return lit_ms
        if f == "ms_": return "{:,}ms".format(tk // TPM).replace(",", "_")
        if f == "for_ms": return "for " + lit_ms
    if k == "rep": return "infinite" if a["n"] == -2 else "%dx" % a["n"]
    if k == "rev": return "reverse"
    if k == "ease": return ease_path(a["e"])
    if k == "kf":
        pos = a["pos"]
        head = {"from": "from", "to": "to"}.get(a["form"]) or (("%d%%" % (pos // 2)) if pos % 2 == 0 else dec(pos, 2) + "%")
        return head + " " + fields_tokens(a["d"])
    raise ValueError(a)


def sentence_tokens(args):
    return " ".join(arg_tokens(a) for a in args)


# Names a macro expansion might plausibly bind itself: a caller's local of that name, used as a keyframe value,
# must still mean the caller's local (the reading of a value expression does not depend on its spelling).
HAZARD = ["position", "timeline", "builder", "keyframe", "time", "value", "values", "easing", "duration", "delay", "config", "data", "result",
          "kf", "tl", "pos", "normalized_time", "frame", "start", "end", "repeat", "target", "this", "args", "tokens", "name", "keyframes",
          "timeline_name", "t", "k", "b", "v", "p", "x", "y", "n", "m", "i", "e", "d", "s", "kfs", "from", "to", "percent", "seconds"]
TYPES = ["f32", "f32", "i32", "i16"]


def sentence_via_locals(args, rot):
    """(let-bindings, tokens): the same sentence with every keyframe value spelled as a caller local"""
    lets, toks, used = [], [], 0
    for a in args:
        if a["k"] != "kf":
            toks.append(arg_tokens(a)); continue
        pos = a["pos"]
        head = {"from": "from", "to": "to"}.get(a["form"]) or (("%d%%" % (pos // 2)) if pos % 2 == 0 else dec(pos, 2) + "%")
        fs = []
        for i, v in enumerate(a["d"]):
            if v:
                name = HAZARD[(rot + used) % len(HAZARD)]; used += 1
                if used > len(HAZARD): return None          # (names would repeat within one function)
                lets.append("let %s: %s = %s;" % (name, TYPES[i], ("%d.0" % v[0]) if i < 2 else str(v[0])))
                fs.append("%s: %s" % (FIELDS[i], name))
        toks.append(head + " { " + ", ".join(fs) + " }")
    return " ".join(lets), " ".join(toks)


def twin_chain(args, ty="P4"):
    """builder chain under the documented reading (later argument of a kind wins; keyframes accumulate)"""
    out = "%s::timeline()" % ty
    for a in args:
        k = a["k"]
        if k == "dur": out += ".duration_seconds(%s / 1000.0)" % dec(a["tk"], TPM)
        elif k == "del": out += ".delay_seconds(%s / 1000.0)" % dec(a["tk"], TPM)
        elif k == "rep": out += ".repeat(Repeat::Infinite)" if a["n"] == -2 else ".repeat(Repeat::Times(%d))" % a["n"]
        elif k == "rev": out += ".reverse(true)"
        elif k == "ease": out += ".default_easing(%s)" % ease_path(a["e"])
        elif k == "kf":
            p = "0.0" if a["form"] == "from" else "1.0" if a["form"] == "to" else "%s / 100.0" % dec(a["pos"], 2)
            out += ".keyframe(%s::keyframe(%s)%s)" % (ty, p, setters(a["d"]))
    return out + ".build()"


def load(path):
    lines = []
    with open(path) as f:
        for l in f:
            if l.startswith('<<"REPLAY", '):
                lines.append(json.loads(json.loads(l.strip()[len('<<"REPLAY", '):-2])))
    return lines


ILL = [  # (class, fragment) - inserted into an otherwise well-formed sentence
    ("unknown-suffix", "5m"), ("unknown-suffix", "2sec"), ("unknown-suffix", "for 5min"), ("unknown-suffix", "after 2m"),
    ("unknown-suffix", "for 3x"), ("no-suffix", "for 2"), ("no-suffix", "after 500"), ("bare-number", "5"), ("bare-number", "1.5"),
    ("missing-percent", "40 { x: 1.0 }"), ("missing-percent", "12.5 { x: 1.0 }"),
    ("non-integer-repeat", "2.5x"), ("repeat-overflow", "5000000000x"),
    ("keyframe-without-braces", "from x: 1.0"), ("keyframe-without-braces", "50% x"), ("keyframe-without-braces", "to 1.0"),
    ("unit-on-percent", "40s% { x: 1.0 }"), ("stray-token", "=> { x: 1.0 }"), ("string-literal", "\"2s\""),
]


# ---------------------------------------------------------------------------------------------
#  animator! blocks (C16)
def barg_tokens(a):
    k = a["k"]
    if k in ("dur", "del"):
        ms = a["t"] * 125
        lit = (("%ds" % (ms // 1000)) if ms % 1000 == 0 else dec(ms, 1000) + "s") if a["form"].endswith("s") and not a["form"].endswith("ms") else (("%d.0ms" if ms % 375 == 0 else "%dms") % ms)
        if k == "del": return "after " + lit
        return ("for " if a["form"].startswith("for_") else "") + lit
    if k == "kf":
        pos = a["pos"]
        head = {"from": "from", "to": "to"}.get(a["form"]) or (("%d%%" % (pos // 2)) if pos % 2 == 0 else dec(pos, 2) + "%")
        return head + " " + ("default" if a["dflt"] else fields_tokens(a["d"]))
    return arg_tokens(a)


def bsentence(args):
    return " ".join(barg_tokens(a) for a in args)


def btwin_chain(args):
    out = "G4::timeline()"
    for a in args:
        k = a["k"]
        if k == "dur": out += ".duration_seconds(%d.0 / 1000.0)" % (a["t"] * 125)
        elif k == "del": out += ".delay_seconds(%d.0 / 1000.0)" % (a["t"] * 125)
        elif k == "rep": out += ".repeat(Repeat::Infinite)" if a["n"] == -2 else ".repeat(Repeat::Times(%d))" % a["n"]
        elif k == "rev": out += ".reverse(true)"
        elif k == "ease": out += ".default_easing(%s)" % ease_path(a["e"])
        elif k == "kf":
            p = "0.0" if a["form"] == "from" else "1.0" if a["form"] == "to" else "%s / 100.0" % dec(a["pos"], 2)
            out += (".keyframe(G4::keyframe_from(&dv, %s))" % p) if a["dflt"] else ".keyframe(G4::keyframe(%s)%s)" % (p, setters(a["d"]))
    return out


def g4_expr(vals):
    v = [x[0] if x else 0 for x in vals]
    return "G4 { x: %d.0, y: %d.0, n: %d, m: %d, k: 0.0 }" % tuple(v)


def g4_expr_base(vals):
    """a struct literal that lists only x and takes the rest from a base value (functional update syntax)"""
    v = [x[0] if x else 0 for x in vals]
    return "G4 { x: %d.0, ..G4 { x: -1.0, y: %d.0, n: %d, m: %d, k: 0.0 } }" % (v[0], v[1], v[2], v[3])


def block_tokens(b):
    d = b["def"]
    parts = []
    if d["form"] == "state": parts.append("default(S4::S%d)" % d["st"])
    elif d["form"] == "inline": parts.append("default(S4::S%d, %s)" % (d["st"], fields_tokens(d["vals"])))
    elif d["form"] == "expr": parts.append("default(S4::S%d, %s)" % (d["st"], g4_expr(d["vals"])))
    elif d["form"] == "exprbase": parts.append("default(S4::S%d, %s)" % (d["st"], g4_expr_base(d["vals"])))
    for arm in b["arms"]:
        sts = " | ".join("S4::S%d" % s for s in arm["sts"])
        body = bsentence(arm["body"][0]) if len(arm["body"]) == 1 else "[ " + ", ".join(bsentence(x) for x in arm["body"]) + " ]"
        parts.append("%s => %s" % (sts, body))
    return "animator!(G4 { " + ", ".join(parts) + " })"


def block_twin(b, s0):
    d = b["def"]
    if d["form"] in ("none", "state"): dv = "G4::default()"
    elif d["form"] == "inline":
        dv = "{ let mut d = G4::default(); " + " ".join("d.%s = %s;" % (FIELDS[i], ("%d.0" % v[0]) if i < 2 else str(v[0])) for i, v in enumerate(d["vals"]) if v) + " d }"
    else: dv = g4_expr(d["vals"])      # expr / exprbase: the same value, written out in full
    # no values in the block = the builder's own default: from_values is not called at all
    out = "{ let dv: G4 = %s; StateAnimatorBuilder::new().from_state(S4::S%d)%s" % (dv, s0, "" if d["form"] in ("none", "state") else ".from_values(dv.clone())")
    for arm in b["arms"]:
        for s in arm["sts"]:
            if len(arm["body"]) == 1: out += ".on(S4::S%d, %s)" % (s, btwin_chain(arm["body"][0]))
            else: out += ".on(S4::S%d, MergedTimeline::of([%s]))" % (s, ", ".join(btwin_chain(x) + ".build()" for x in arm["body"]))
    return out + ".build() }"


# ---------------------------------------------------------------------------------------------
#  derive(Animate) shapes (C17)
# field names that coincide with locals / fields of the derive's own expansion (one shape in three uses them)
HAZARD_FIELDS = ["normalized_time", "frame_index", "values", "time", "timescale", "boundary_times"]


def field_namer(i):
    return (lambda p: HAZARD_FIELDS[p - 1]) if i % 3 == 2 else (lambda p: "a%d" % p)


def shape_struct(sh, name="T", fn=lambda p: "a%d" % p):
    """Rust source of the struct(s) of a shape; returns (source, target type name, animated slots, present slots)"""
    slots = sh["slots"]
    present = [p for p in range(1, 7) if slots[p - 1]["ty"] != "none"]
    marked = [] if sh["markmode"] == 0 else [p for p in present if slots[p - 1]["mark"]]
    order = present[sh["order"] % len(present):] + present[:sh["order"] % len(present)]
    vis = ["", "pub ", "pub(crate) "][sh["vis"]]
    fields = []
    for p in order:
        sl = slots[p - 1]
        f = ""
        if sl["doc"]: f += "    /// documentation of field %s\n" % fn(p)
        if p in marked: f += "    #[animate]\n"
        else: f += {0: "", 1: "    #[allow(dead_code)]\n", 2: "    #[rustfmt::skip]\n", 3: "    #[doc(hidden)]\n"}[sl["attr"]]
        if p in marked and sl["attr"] == 1: f += "    #[allow(dead_code)]\n"      # a second attribute AFTER the marker
        f += "    pub %s: %s,\n" % (fn(p), sl["ty"])
        fields.append(f)
    if sh["remote"]:
        src = "#[derive(Clone, Debug, Default, PartialEq)]\npub struct Foreign {\n%s}\n" % "".join("    pub %s: %s,\n" % (fn(p), slots[p - 1]["ty"]) for p in order)
        src += "#[derive(Animate)]\n#[animate(remote = \"Foreign\")]\n%sstruct %s {\n%s}\n" % (vis, name, "".join(fields))
        target = "Foreign"
    else:
        src = "#[derive(Animate, Clone, Debug, Default, PartialEq)]\n%sstruct %s {\n%s}\n" % (vis, name, "".join(fields))
        target = name
    return src, target, present


def shape_module(i, line):
    sh = line["shape"]
    fn = field_namer(i)
    src, target, present = shape_struct(sh, fn=fn)
    animated = line["animated"]
    slots = sh["slots"]
    cast = lambda p: slots[p - 1]["ty"]
    sent = ", ".join("%s: %s as %s" % (fn(p), ("%d.5" % (900 + p)) if p <= 3 else str(240 + p), cast(p)) for p in present)
    srcv = ", ".join("%s: %s as %s" % (fn(p), ("%d.25" % (40 + p)) if p <= 3 else str(40 + p), cast(p)) for p in present)
    get = " ".join("%d => v.%s as f64," % (p, fn(p)) for p in present)
    setk = " ".join("%d => k.%s(v as %s)," % (p, fn(p), cast(p)) for p in animated)
    m = "pub mod sh%d {\n    #![allow(dead_code, unused_variables, unused_mut)]\n    use mina::prelude::*;\n    use serde_json::Value;\n" % i
    m += "".join("    " + l + "\n" for l in src.split("\n") if l)
    m += "    pub type Target = %s;\n" % target
    m += "    pub fn sentinel() -> Target { Target { %s } }\n" % sent
    m += "    pub fn source() -> Target { Target { %s } }\n" % srcv
    m += "    pub fn get(v: &Target, p: usize) -> f64 { match p { %s _ => f64::NAN } }\n" % get
    m += "    pub fn build(line: &Value) -> <T as Animate>::Timeline {\n        let tm = &line[\"tm\"];\n"
    m += "        let mut b = T::timeline().duration_seconds(tm[\"cyc\"].as_i64().unwrap() as f32 * 0.125).delay_seconds(tm[\"del\"].as_i64().unwrap() as f32 * 0.125)\n"
    m += "            .repeat(harness::common::repeat_of(tm[\"rep\"].as_i64().unwrap())).reverse(tm[\"rev\"].as_bool().unwrap()).default_easing(harness::common::easing(line[\"de\"].as_i64().unwrap()));\n"
    m += "        for kf in line[\"kfs\"].as_array().unwrap() {\n            let mut k = T::keyframe(kf[\"pos\"].as_i64().unwrap() as f32 / 8.0);\n"
    m += "            for (pi, d) in kf[\"d\"].as_array().unwrap().iter().enumerate() { if let Some(v) = d.as_array().unwrap().first() { let v = v.as_i64().unwrap(); k = match pi + 1 { %s _ => unreachable!(\"setter for a field outside the animated set\") }; } }\n" % setk
    m += "            let e = kf[\"e\"].as_i64().unwrap(); if e != 0 { k = k.easing(harness::common::easing(e)); }\n            b = b.keyframe(k);\n        }\n        b.build()\n    }\n"
    m += "    pub fn copy_timeline(src: &Target) -> <T as Animate>::Timeline { T::timeline().keyframe(T::keyframe_from(src, 1.0)).build() }\n"
    a0 = animated[0]
    m += "    pub fn override_timeline(src: &Target) -> <T as Animate>::Timeline { T::timeline().keyframe(T::keyframe_from(src, 1.0).%s(77 as %s).%s(78 as %s)).build() }\n" % (fn(a0), cast(a0), fn(a0), cast(a0))
    m += "    pub fn run(line: &Value, t: &mut harness::tl::Tally, i: usize) { crate::run_shape(line, t, i, &build(line), &copy_timeline(&source()), &override_timeline(&source()), %d, &sentinel, &source(), &get); }\n}\n" % a0
    return m


def main():
    mode, src, outdir = sys.argv[1:4]
    lines = load(src)
    os.makedirs(outdir, exist_ok=True)
    if mode == "blocks":
        with open(os.path.join(outdir, "blocks.rs"), "w") as f:
            f.write("// generated by bin/gen_macros.py from MC_AnimGrammar output - do not edit\n")
            f.write("pub const N: usize = %d;\n" % len(lines))
            for i, l in enumerate(lines):
                f.write("fn m%d() -> EnumStateAnimator<S4, G4Timeline> { %s }\n" % (i, block_tokens(l["block"])))
                f.write("fn b%d() -> EnumStateAnimator<S4, G4Timeline> { %s }\n" % (i, block_twin(l["block"], l["s0"])))
            f.write("static MACRO_FNS: [fn() -> EnumStateAnimator<S4, G4Timeline>; %d] = [%s];\n" % (len(lines), ", ".join("m%d" % i for i in range(len(lines)))))
            f.write("static BUILDER_FNS: [fn() -> EnumStateAnimator<S4, G4Timeline>; %d] = [%s];\n" % (len(lines), ", ".join("b%d" % i for i in range(len(lines)))))
            f.write("pub fn by_macro(i: usize) -> EnumStateAnimator<S4, G4Timeline> { MACRO_FNS[i]() }\npub fn by_builder(i: usize) -> EnumStateAnimator<S4, G4Timeline> { BUILDER_FNS[i]() }\n")
        with open(os.path.join(outdir, "blocks.json"), "w") as f:
            json.dump([{"i": i, "tokens": block_tokens(l["block"])} for i, l in enumerate(lines)], f)
        print(json.dumps({"blocks": len(lines)}))
        return
    if mode == "shapes":
        with open(os.path.join(outdir, "shapes.rs"), "w") as f:
            f.write("// generated by bin/gen_macros.py from MC_Shapes output - do not edit\n")
            for i, l in enumerate(lines):
                f.write(shape_module(i, l))
            f.write("pub const N: usize = %d;\n" % len(lines))
            f.write("pub fn run_all(lines: &[serde_json::Value], t: &mut harness::tl::Tally) {\n")
            for i in range(len(lines)):
                # a panic of the code under test is data: reported as a mismatch of this shape
                f.write("    { let mut loc = harness::tl::Tally::new(); let r = std::panic::catch_unwind(std::panic::AssertUnwindSafe(|| sh%d::run(&lines[%d], &mut loc, %d)));\n" % (i, i, i))
                f.write("      t.lines += loc.lines; loc.lines = 0; t.absorb(loc);\n")
                f.write("      if let Err(e) = r { let msg = e.downcast_ref::<String>().cloned().or_else(|| e.downcast_ref::<&str>().map(|s| s.to_string())).unwrap_or_default();\n")
                f.write("        t.miss(serde_json::json!({\"line\": %d, \"class\": \"panic\", \"panic\": msg, \"shape\": lines[%d][\"shape\"]})); } }\n" % (i, i))
            f.write("}\n")
        # compile-fail: the setter of an excluded field must not exist; control: the setter of an animated field does
        ill = []
        for i, l in enumerate(lines):
            src, target, present = shape_struct(l["shape"])
            excluded = [p for p in present if p not in l["animated"]]
            if excluded and len([x for x in ill if x["class"] == "excluded-setter"]) < 8:
                p = excluded[i % len(excluded)]
                ill.append({"class": "excluded-setter", "shape": i, "field": "a%d" % p, "src": "use mina::prelude::*;\n" + src + "pub fn f() { let _ = T::keyframe(0.0).a%d(1 as %s); }\n" % (p, l["shape"]["slots"][p - 1]["ty"])})
                a = l["animated"][0]
                ill.append({"class": "control-animated-setter", "shape": i, "field": "a%d" % a, "src": "use mina::prelude::*;\n" + src + "pub fn f() { let _ = T::keyframe(0.0).a%d(1 as %s); }\n" % (a, l["shape"]["slots"][a - 1]["ty"])})
        for j, it in enumerate(ill):
            with open(os.path.join(outdir, "ill_%02d.rs" % j), "w") as f:
                f.write(it.pop("src"))
        with open(os.path.join(outdir, "ill.json"), "w") as f:
            json.dump(ill, f)
        with open(os.path.join(outdir, "shapes.json"), "w") as f:
            json.dump([{"i": i, "struct": shape_struct(l["shape"])[0], "animated": l["animated"]} for i, l in enumerate(lines)], f)
        print(json.dumps({"shapes": len(lines), "ill_formed": len(ill)}))
        return
    if mode == "sentences":
        with open(os.path.join(outdir, "sentences.rs"), "w") as f:
            f.write("// generated by bin/gen_macros.py from MC_Grammar output - do not edit\n")
            f.write("pub const N: usize = %d;\n" % len(lines))
            # one function per sentence (a single giant match would need a giant stack frame)
            for i, l in enumerate(lines):
                via = sentence_via_locals(l["args"], i * 7) if i % 3 == 1 else None
                if via: f.write("fn m%d() -> P4Timeline { %s timeline!(P4 %s) }\n" % (i, via[0], via[1]))
                else: f.write("fn m%d() -> P4Timeline { timeline!(P4 %s) }\n" % (i, sentence_tokens(l["args"])))
                f.write("fn b%d() -> P4Timeline { %s }\n" % (i, twin_chain(l["args"])))
            f.write("static MACRO_FNS: [fn() -> P4Timeline; %d] = [%s];\n" % (len(lines), ", ".join("m%d" % i for i in range(len(lines)))))
            f.write("static BUILDER_FNS: [fn() -> P4Timeline; %d] = [%s];\n" % (len(lines), ", ".join("b%d" % i for i in range(len(lines)))))
            f.write("pub fn by_macro(i: usize) -> P4Timeline { MACRO_FNS[i]() }\npub fn by_builder(i: usize) -> P4Timeline { BUILDER_FNS[i]() }\n")
            # merged lists: consecutive sentences
            pairs = [(i, i + 1, (i + 2) if i % 3 == 0 else None) for i in range(0, len(lines) - 2, 2)]
            f.write("pub const NM: usize = %d;\n" % len(pairs))
            for j, (a, b, c) in enumerate(pairs):
                members = [sentence_tokens(lines[k]["args"]) for k in (a, b, c) if k is not None]
                f.write("fn mm%d() -> MergedTimeline<P4Timeline> { timeline!(P4 [ %s ]) }\n" % (j, ", ".join(members)))
                f.write("fn mb%d() -> MergedTimeline<P4Timeline> { MergedTimeline::of([%s]) }\n" % (j, ", ".join("b%d()" % k for k in (a, b, c) if k is not None)))
            f.write("static MM_FNS: [fn() -> MergedTimeline<P4Timeline>; %d] = [%s];\n" % (len(pairs), ", ".join("mm%d" % j for j in range(len(pairs)))))
            f.write("static MB_FNS: [fn() -> MergedTimeline<P4Timeline>; %d] = [%s];\n" % (len(pairs), ", ".join("mb%d" % j for j in range(len(pairs)))))
            f.write("pub fn merged_by_macro(i: usize) -> MergedTimeline<P4Timeline> { MM_FNS[i]() }\npub fn merged_by_builder(i: usize) -> MergedTimeline<P4Timeline> { MB_FNS[i]() }\n")
            f.write("pub fn merged_members(i: usize) -> Vec<usize> { match i {\n")
            for j, (a, b, c) in enumerate(pairs):
                f.write("  %d => vec![%s],\n" % (j, ", ".join(str(k) for k in (a, b, c) if k is not None)))
            f.write("  _ => unreachable!() } }\n")
        with open(os.path.join(outdir, "sentences.json"), "w") as f:
            json.dump([{"i": i, "tokens": sentence_tokens(l["args"])} for i, l in enumerate(lines)], f)
        # ill-formed sentences: one file each, to be rejected by rustc
        ill = []
        base = [l for l in lines if 2 <= len(l["args"]) <= 5] or lines
        for j, (cls, frag) in enumerate(ILL):
            args = base[(j * 7) % len(base)]["args"]
            cut = (j % (len(args) + 1))
            toks = " ".join([arg_tokens(a) for a in args[:cut]] + [frag] + [arg_tokens(a) for a in args[cut:]])
            ill.append({"class": cls, "tokens": toks})
        ill.append({"class": "control-wellformed", "tokens": sentence_tokens(base[0]["args"])})
        ill.append({"class": "control-wellformed", "tokens": "for 2s after 0.5s Easing::OutQuad reverse 3x from { x: 1.0 } 12.5% { n: 3 } to { x: 2.0 }"})
        for j, it in enumerate(ill):
            with open(os.path.join(outdir, "ill_%02d.rs" % j), "w") as f:
                f.write("use mina::prelude::*;\n#[derive(Animate, Clone, Debug, Default, PartialEq)]\npub struct P4 { #[animate] pub x: f32, #[animate] pub y: f32, #[animate] pub n: i32, #[animate] pub m: i16, pub k: f32 }\n")
                f.write("pub fn f() -> P4Timeline { timeline!(P4 %s) }\n" % it["tokens"])
        with open(os.path.join(outdir, "ill.json"), "w") as f:
            json.dump(ill, f)
        print(json.dumps({"sentences": len(lines), "merged": len(pairs), "ill_formed": len(ill)}))


if __name__ == "__main__":
    main()
