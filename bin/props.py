"""Per-property checks.  Each function returns (level, rule) after filling the Ctx."""
import json, os
from vlib import *

CHECKS = {}


def check(pid):
    def deco(f):
        CHECKS[pid] = f
        return f
    return deco


# =========================================================================================
#  timeline family: C01 C02 C03 C08 C10 C11 (C09, C12, C20 further below)
# =========================================================================================
def merge_reports(reps):
    out = {"lines": 0, "evals": 0, "mismatches": 0, "by_class": {}, "mism_by_class": {}, "tags": {}, "first": []}
    for r in reps:
        for k in ("lines", "evals", "mismatches"):
            out[k] += r[k]
        for k in ("by_class", "mism_by_class", "tags"):
            for a, b in r[k].items():
                out[k][a] = out[k].get(a, 0) + b
        out["first"] += r["first"]
    return out


def timeline_legA(ctx, want_sim=True):
    """Leg A: TLC enumerates builder behaviours + predictions, the harness replays them."""
    reps = []
    gens = [("Gen_Timeline_quick.cfg", "-3,0,6")]
    if want_sim:
        gens.append(("Gen_Timeline_sim.cfg" if ctx.quick() else "Gen_Timeline_simT.cfg", "-9,-3,1,20"))
        gens.append(("Gen_Timeline_long.cfg", "-3,2"))      # up to 12 keyframes
        gens.append(("Gen_Timeline_many.cfg", "-3,0"))      # up to 40 keyframes with many repeated positions
        gens.append(("Gen_Timeline_near.cfg", "-3,0"))      # positions closer together than f32::EPSILON
    if not ctx.quick():
        gens.append(("Gen_Timeline_k3.cfg", "-3,4"))
    for cfg, scales in gens:
        sub = None
        if cfg in ("Gen_Timeline_long.cfg", "Gen_Timeline_near.cfg"):
            sub = {"NRand": (60 if cfg.endswith("long.cfg") else 120) if ctx.quick() else 1500}
        if cfg == "Gen_Timeline_many.cfg":
            sub = {"NRand": 12 if ctx.quick() else 200}
        run = run_tlc(ctx, "Gen_Timeline", cfg, workers=4, capture="gen-" + cfg + ".txt", timeout=3000, subst=sub)
        n = count_replay(run["out"])
        if n == 0:
            raise ToolError("generator %s produced no behaviours" % cfg)
        rep = run_harness(["replay-tl", run["out"], scales])
        if rep["lines"] != n:
            raise ToolError("harness read %d of %d behaviours" % (rep["lines"], n))
        ctx.traces += n * len(scales.split(","))
        ctx.evaluations += rep["evals"]
        if len(ctx.samples) < 2:
            for obj in replay_lines(run["out"]):
                if len(obj["kfs"]) >= 2 and obj["tm"]["rep"] != -1 and any(d for k in obj["kfs"] for d in k["d"]):
                    obj["evals"] = obj["evals"][:3]
                    obj["cls"] = obj["cls"][:3]
                    ctx.sample({"replayed_behaviour": obj})
                    break
        os.remove(run["out"])
        reps.append(rep)
    return merge_reports(reps)


def judge_replay(ctx, rep, relevant, label):
    """relevant(m) selects the mismatches that concern this property; the rest become notes."""
    other = 0
    for m in rep["first"]:
        if relevant(m) or m.get("class") == "panic":
            ctx.violation("replay mismatch (%s): real timeline disagrees with the specification" % label, m)
        else:
            other += 1
    # mismatches beyond the kept first few still count: look at the per-class totals
    ctx.extra["replay"] = {k: rep[k] for k in ("lines", "evals", "by_class", "mism_by_class", "tags")}
    if other:
        ctx.note("%d kept mismatch(es) of classes outside this property (%s) - see the checks of the properties they belong to"
                 % (other, sorted(set(m.get("class") for m in rep["first"] if not relevant(m)))))


def mc_keyframes(ctx, invariants_note):
    run_tlc(ctx, "MC_Keyframes", "MC_Keyframes_quick.cfg" if ctx.quick() else "MC_Keyframes_thorough.cfg", workers=8, timeout=3000)
    run_tlc(ctx, "MC_Keyframes", "MC_Keyframes_k3.cfg", workers=8)
    ctx.extra["model_invariants"] = invariants_note


def mc_timescale(ctx):
    run_tlc(ctx, "MC_TimeScale", "MC_TimeScale_quick.cfg" if ctx.quick() else "MC_TimeScale_thorough.cfg", workers=4)
    run_tlc(ctx, "MC_TimeScale", "MC_TimeScale_asfound_nohold.cfg", workers=2, expect_violation="HoldAtEnd")


RULE_TL = ("TLC enumerates every keyframe list within the bounds of the cfg (positions k/PD incl. repeats, any property subset, "
           "optional easing) in every insertion order, plus pseudo-random lists of up to 6 keyframes over 4 properties, of up to 12 keyframes "
           "over 2, and lists whose positions are distinct but closer together than f32::EPSILON (0.5 and the next float); each builder "
           "state is one behaviour, printed with the spec's predicted value terms at EVERY tick from 0 to past the end for timings "
           "drawn from a pool of 22 (delay/repeat/reverse/non-dyadic cycles, counts beyond 2^24, cycles whose reciprocal product is below 1) and replayed through the real builder + derive(Animate) "
           "timeline at several tick scales, once more with all float values scaled towards f32::MAX, one line in 24 with one keyframe repeated "
           "66 000 times (neutral by the model's DupNeutral law), and with an i32 beyond 2^24 at a lone 100% keyframe where the prediction is "
           "exactly that keyframe; distinct = distinct builder states x scales; non-trivial = at least one keyframe")


@check("C01")
def c01(ctx):
    mc_keyframes(ctx, "Refines: ImplSeg (code path) is allowed by DesignSeg (CSS meaning) for every list, position, default easing, override")
    rep = timeline_legA(ctx)
    judge_replay(ctx, rep, lambda m: m.get("class") == "seg", "strictly between two defining keyframes")
    ctx.assumptions += ["built-in easing values are taken from the implementation's own calc (C13 decides them); model easings x^2 and 2x-x^2 are exact",
                        "float results compared to the exact term within 4e-6 relative to the operands; integer properties exactly (either neighbour within 1e-4 of a tie)"]
    return "model_checking", RULE_TL


@check("C02")
def c02(ctx):
    mc_keyframes(ctx, "HitsExact: a uniquely defined keyframe position yields exactly that keyframe's value")
    mc_timescale(ctx)
    rep = timeline_legA(ctx)
    judge_replay(ctx, rep, lambda m: m.get("class") in ("hit", "pre", "end"), "keyframe hit / up to the delay / at or after the end")
    rep2 = objects_legA(ctx)      # the same clauses for merged timelines (components still in their delay, ended components)
    judge_replay(ctx, rep2, lambda m: m.get("class") in ("value", "prior-contents"), "merged timeline: value before the delay / after the end")
    ctx.assumptions += ["keyframe hits, start and terminal values: integers exactly, floats within 4 ulp of the predicted constant"]
    return "model_checking", RULE_TL


@check("C08")
def c08(ctx):
    mc_keyframes(ctx, "Untouched: a property without a defining keyframe evaluates to U at every position, with or without override")
    rep = timeline_legA(ctx)
    judge_replay(ctx, rep, lambda m: m.get("class") in ("U", "unmapped", "unanimated-field"), "property / field the timeline does not animate")
    mc_animator(ctx)          # KeepsOthers: properties the current state's timeline does not animate keep their value
    rep2 = animator_legA(ctx)
    judge_replay(ctx, rep2, lambda m: m.get("class") == "untouched", "animator touched a field no timeline animates")
    rep3 = shapes_run(ctx, 60 if ctx.quick() else 800)     # struct shapes: which fields carry #[animate]
    if rep3 is not None:
        judge_replay(ctx, rep3, lambda m: m.get("class") in ("excluded-field-touched", "keyframe_from"), "a field excluded from animation is animated / copied")
    ctx.assumptions += ["targets are pre-filled with distinct sentinel values in every field (incl. a field without #[animate] and an Option field); untouched = bit-identical afterwards"]
    return "model_checking", RULE_TL


@check("C10")
def c10(ctx):
    mc_keyframes(ctx, "StartOnly: with an override the value at 0% is exactly v, and results equal the un-substituted twin from the property's second frame on")
    mc_timescale(ctx)
    run_apalache(ctx, "TimeScaleInt", "FirstForward")
    rep = timeline_legA(ctx)
    judge_replay(ctx, rep, lambda m: m.get("ov") is True, "timeline with a substituted start value")
    rep2 = objects_legA(ctx)      # sequences of start_with calls on one object (the latest replaces), clones, merged
    judge_replay(ctx, rep2, lambda m: m.get("class") == "value", "object history with start_with calls")
    return "model_checking", RULE_TL


@check("C11")
def c11(ctx):
    mc_keyframes(ctx, "OrderFree: evaluation goes through the stably sorted list only")
    run_tlc(ctx, "MC_Keyframes", "MC_Keyframes_asfound_C11.cfg", workers=4, expect_violation="OrderFree")
    rep = timeline_legA(ctx)
    judge_replay(ctx, rep, lambda m: m.get("ascending") is False or m.get("class") == "order-dependent", "keyframes added in non-ascending order / the same keyframes in another insertion order")
    return "model_checking", RULE_TL


def timescale_legB(ctx, nconf):
    """Leg B: real TimeScale/timeline observed at exact integer-tick times, validated by TLC."""
    tr = ctx.path("ts.ndjson")
    rep = run_harness(["drive-ts", ctx.seed, nconf, tr])
    ok, rej, states = run_trace(ctx, "Trace_TimeScale", tr)
    ctx.traces += rep["configs"]
    ctx.evaluations += rep["events"]
    ctx.extra["timescale_trace"] = {k: rep[k] for k in ("configs", "events", "boundary_points")}
    for s in rep["samples"][:2]:
        ctx.sample({"validated_observation": s})
    if not ok:
        ctx.violation("trace rejected: the real time mapping is not a behaviour of TimeScale.tla", {"first_unmatched_record": rej})
    os.remove(tr)


@check("C03")
def c03(ctx):
    mc_timescale(ctx)
    for inv in ("Inv",):
        run_apalache(ctx, "TimeScaleInt", inv)
    run_apalache(ctx, "TimeScaleInt", "HoldAtEnd", cinit="CInitBug", expect_violation=True)
    timescale_legB(ctx, 300 if ctx.quick() else 6000)
    rep = timeline_legA(ctx, want_sim=False)
    judge_replay(ctx, rep, lambda m: True, "timing of a generated timeline (incl. reported delay/cycle/duration/repeat)")
    ctx.assumptions += ["Apalache result is about exact integer time; carried to f32 on exact integer-tick grids (tick = 2^e s, all quantities < 2^29 ticks)",
                        "the end instant is fl(cycle*(repeats+1)) as the code computes it in f32 (Trace_TimeScale.tla EndedAt)"]
    return "model_checking", ("Apalache: Inv for all integers C>=1,D,N,t; TLC: every timing in the cfg x every tick; leg B: random timings with full 24-bit "
                              "mantissa cycles, at the f32 neighbours of every phase boundary and random times, each observation (phase, flags, position via "
                              "get_position and via Timeline::update) validated by TLC against PhaseImpl; leg A as for C01")


# =========================================================================================
#  state animator: C04 C05 C06 C07
# =========================================================================================
NK = 9   # size of the animator configuration pool in MC_Animator.tla


def mc_animator(ctx):
    depth = 6 if ctx.quick() else 8
    for k in range(1, NK + 1):
        run_tlc(ctx, "MC_Animator", "MC_Animator_quick.cfg", workers=8, subst={"K": k, "Depth": depth}, timeout=3000)
    run_tlc(ctx, "MC_Animator", "MC_Animator_asfound_C04.cfg", workers=4, expect_violation="PauseRules")
    run_tlc(ctx, "MC_Animator", "MC_Animator_asfound_C04nj.cfg", workers=4, expect_violation="NoJump")
    run_tlc(ctx, "MC_Animator", "MC_Animator_asfound_shape.cfg", workers=4, expect_violation="PauseShape")
    ctx.extra["model_properties"] = ["NoJump", "PauseRules", "Consistent", "EndedStable", "EndedIff", "TerminalWhenEnded", "NeverEndedIfInfinite", "KeepsOthers", "PauseShape", "FrameRateFree"]


def animator_legA(ctx):
    reps = []
    plans = []
    for k in range(1, NK + 1):
        plans.append(("exh", {"K": k, "Depth": 5 if ctx.quick() else 6}, "-3,0,3"))
        plans.append(("rnd", {"K": k, "Depth": 40, "NRand": 100 if ctx.quick() else 1500, "DTs": "{0, 1, 2, 3, 5, 8}"}, "-3,2"))
    plans.append(("long", {"K": 5, "Depth": 30, "NRand": 50 if ctx.quick() else 600, "DTs": "{0, 1, 2, 3}", "Big": 16777216}, "-3,0"))
    plans.append(("long", {"K": 2, "Depth": 30, "NRand": 50 if ctx.quick() else 600, "DTs": "{0, 1, 2, 3}", "Big": 16777216}, "-3,0"))
    for kind, sub, scales in plans:
        run = run_tlc(ctx, "MC_Animator", "Gen_Animator_quick.cfg", workers=4, subst=sub, capture="gen-anim.txt", timeout=3000)
        n = count_replay(run["out"])
        if n == 0:
            raise ToolError("animator generator produced no behaviours (%s)" % sub)
        rep = run_harness(["replay-anim", run["out"], scales])
        if rep["lines"] != n:
            raise ToolError("harness read %d of %d behaviours" % (rep["lines"], n))
        ctx.traces += n * len(scales.split(","))
        ctx.evaluations += rep["evals"]
        if kind != "exh" and len(ctx.samples) < 2:
            for obj in replay_lines(run["out"]):
                obj["ops"] = obj["ops"][:8]
                obj["obs"] = obj["obs"][:8]
                ctx.sample({"replayed_history": obj})
                break
        os.remove(run["out"])
        reps.append(rep)
    return merge_reports(reps)


RULE_AN = ("TLC enumerates ALL histories of advance(dt in {0,1,3})/set_state(s in 4 states) up to the depth in tlc_runs for each of 8 animator "
           "configurations (finite, delayed, repeating+reversing, infinite, merged, eased, keyframe-less and un-animated states), plus pseudo-random histories "
           "of length 40 and histories that start with one 2^24-tick advance followed by fine frames; every history is replayed on a real "
           "StateAnimatorBuilder animator at 2-3 tick scales (tick >= 1/8 s, the exact grid of Duration/as_secs_f32; plus tolerance passes at "
           "1/64 s, 0.1 s and 512 ns ticks that skip the discontinuity instants) and after EVERY call "
           "current_state, is_ended, current_values (exact terms), the internal clock and pause record (hook), bit-identity of current_values "
           "across set_state, and bit-identity with a twin animator that receives the same time in a different partition are compared; leg B: "
           "random configurations (random timelines per state) driven by random histories are logged from the real code and validated by TLC "
           "(Trace_Animator), predicted value terms compared by the harness")


def animator_legB(ctx, want_values=True):
    """Leg B: random animator configurations and histories recorded from the real code, validated by TLC."""
    tr = ctx.path("anim.ndjson")
    st = run_harness(["drive-anim", ctx.seed, 60 if ctx.quick() else 1200, 60, tr])
    ok, rej, _ = run_trace(ctx, "Trace_Animator", tr, timeout=3000)
    ctx.traces += st["worlds"]
    ctx.evaluations += st["events"]
    ctx.extra["animator_trace"] = {k: st[k] for k in ("worlds", "events", "set_state_calls")}
    for smp in st["samples"][:1]:
        ctx.sample({"validated_event": smp})
    if not ok:
        ctx.violation("trace rejected: the real animator's state / is_ended / clock / pause record / no-jump is not a behaviour of Animator.tla",
                      {"first_unmatched_record": rej})
    elif want_values:
        j = run_harness(["judge-anim", tr, ctx.path("trace-Trace_Animator.txt")])
        ctx.extra["animator_trace"]["values_checked"] = j["values_checked"]
        for m in j["first"]:
            ctx.violation("current_values differ from the value terms predicted by Trace_Animator", m)
    os.remove(tr)


def animator_check(ctx, classes, label):
    mc_animator(ctx)
    rep = animator_legA(ctx)
    judge_replay(ctx, rep, lambda m: m.get("class") in classes, label)
    animator_legB(ctx, want_values="vals" in classes)
    ctx.assumptions += ["times on the 1/8 s grid or coarser (Duration::from_secs_f32 / as_secs_f32 exact; beyond 2^24 ticks the spec rounds the clock to f32 like as_secs_f32)",
                        "keyframe positions per property are distinct in the configuration pool"]
    return "model_checking", RULE_AN


@check("C04")
def c04(ctx):
    return animator_check(ctx, ("nojump", "same-state"), "current_values changed across set_state / set_state(current) had an effect")


@check("C05")
def c05(ctx):
    # the pause protocol abstracted from the values: PauseShape proved inductive for histories of ANY length
    run_apalache(ctx, "AnimProto", "IndInv", length=1, init="IndInit")
    run_apalache(ctx, "AnimProto", "IndInv", length=0, init="Init")
    run_apalache(ctx, "AnimProto", "IndInv", cinit="CInitStale", length=1, init="IndInit", expect_violation=True)
    return animator_check(ctx, ("vals", "state", "snap", "untouched"), "values / state / internal clock / pause record differ from the specification")


@check("C06")
def c06(ctx):
    r = animator_check(ctx, ("framerate",), "same history with time delivered in a different partition gives different results")
    # advance(a); advance(b) == advance(a+b) also when b is astronomically large
    ex = run_harness(["drive-extreme", ctx.seed, 50])
    for i in ex["animator_issues"]:
        ctx.violation("a huge frame delivered after some progress does not behave like the same total time", i)
    return r


@check("C07")
def c07(ctx):
    mc_animator(ctx)
    mc_timescale(ctx)
    run_apalache(ctx, "TimeScaleInt", "AfterTotalConstant")
    rep = animator_legA(ctx)
    judge_replay(ctx, rep, lambda m: m.get("class") == "ended" or (m.get("class") == "vals" and m.get("exp_ended") is True),
                 "is_ended differs from the specification, or values do not rest at the terminal values while ended")
    animator_legB(ctx, want_values=True)
    # never ended while a component repeats forever - also when the clock saturates
    ex = run_harness(["drive-extreme", ctx.seed, 50])
    for i in ex["endless_issues"]:
        ctx.violation("an endlessly repeating animation reports completion after an astronomically large advance", i)
    return "model_checking", RULE_AN


# =========================================================================================
#  Bevy plugin: C18 C19
# =========================================================================================
NKW = 7   # entity configurations in MC_Bevy.tla


def mc_bevy(ctx):
    steps = 6 if ctx.quick() else 7
    for kw in range(1, NKW + 1):
        run_tlc(ctx, "MC_Bevy", "MC_Bevy_quick.cfg", workers=8, subst={"KW": kw, "MaxSteps": steps}, timeout=3000)
    run_tlc(ctx, "MC_Bevy", "MC_Bevy_quick.cfg", workers=4, subst={"KW": 1, "Defects": '{"C18_phase_skip"}'}, expect_violation="C18")
    run_tlc(ctx, "MC_Bevy", "MC_Bevy_quick.cfg", workers=4, subst={"KW": 4, "Defects": '{"C19_untyped_event"}'}, expect_violation="C19")


def bevy_validate(ctx, trace, label, stats):
    out = None
    ok, rej, states = run_trace(ctx, "Trace_Bevy", trace, timeout=3000)
    out = ctx.path("trace-Trace_Bevy.txt")
    ctx.traces += stats["worlds"]
    ctx.evaluations += stats["frames"]
    if not ok:
        ctx.violation("trace rejected (%s): the real App's behaviour is not a behaviour of Bevy.tla under any admissible system order" % label,
                      {"first_unmatched_record": rej})
        return
    j = run_harness(["judge", trace, out], which=HARNESS_BEVY)
    ctx.extra.setdefault("judge", []).append({k: j[k] for k in ("worlds", "frames_checked", "timeline_evaluations", "mismatches")})
    for m in j["first"]:
        ctx.violation("component contents (%s): not the timeline evaluated where the specification says it was evaluated" % label, m)


def bevy_legs(ctx):
    # leg A: TLC enumerates the input schedules
    for kw in ((1, 3, 5, 6, 7) if ctx.quick() else range(1, NKW + 1)):
        run = run_tlc(ctx, "MC_Bevy", "Gen_Bevy.cfg", workers=4, subst={"KW": kw, "MaxSteps": 4 if ctx.quick() else 5}, capture="gen-bevy.txt", timeout=3000)
        if count_replay(run["out"]) == 0:
            raise ToolError("MC_Bevy generator produced no schedules")
        tr = ctx.path("bevyA-%d.ndjson" % kw)
        st = run_harness(["drive-file", run["out"], tr], which=HARNESS_BEVY)
        bevy_validate(ctx, tr, "TLC-enumerated schedules, entity configuration %d" % kw, st)
        os.remove(run["out"]); os.remove(tr)
    # leg B: seeded random schedules in random entity configurations
    tr = ctx.path("bevyB.ndjson")
    st = run_harness(["drive", ctx.seed, 80 if ctx.quick() else 1500, 25, tr], which=HARNESS_BEVY)
    for s in st["samples"][:2]:
        ctx.sample({"validated_frame": s})
    bevy_validate(ctx, tr, "random schedules", st)
    os.remove(tr)


RULE_BEVY = ("TLC explores every schedule of frame deltas {0,1,3,1000 ticks} and user operations (key assignment, enable/disable, reset, set_timeline) "
             "up to the depth in tlc_runs on 7 entity configurations under all 8 admissible system orders with each system as its own step; the same "
             "schedules (leg A) and seeded random ones (leg B) are run in a real App with a hand-driven Time; TLC validates each log (state, position, "
             "enabled, selector key, event sequence per frame) searching over the system order, and the harness re-evaluates the real timelines at the "
             "evaluation points predicted by the surviving behaviours and compares component bits")


@check("C18")
def c18(ctx):
    mc_bevy(ctx)
    bevy_legs(ctx)
    ctx.assumptions += ["tick = 1/8 s (exact Duration/as_secs_f32 grid)", "component values are judged against the real Timeline::update (C01-C12 decide that)",
                        "on the frame of the Waiting->Playing transition and after set_timeline on an Ended animator the component is unconstrained (DESIGN 6 C18)"]
    return "model_checking", RULE_BEVY


@check("C19")
def c19(ctx):
    mc_bevy(ctx)
    bevy_legs(ctx)
    ctx.assumptions += ["the chain is judged by the state of the governed animator (Ended under the active key), whichever Ended event wakes the system (DESIGN 6 C19)",
                        "same-frame races between a user key assignment and a pending chain are left open"]
    return "model_checking", RULE_BEVY


# =========================================================================================
#  timelines as objects: C09 (purity) and C12 (merged), and C20 (no panic / debug = release)
# =========================================================================================
NKO = 14


def objects_mc(ctx):
    for ko in ((1, 4, 5, 8) if ctx.quick() else range(1, NKO + 1)):
        run_tlc(ctx, "MC_Objects", "MC_Objects_quick.cfg", workers=8, subst={"KO": ko, "Depth": 2 if ctx.quick() else 3}, timeout=3000)


def objects_legA(ctx, release=False):
    reps = []
    plans = [({"KO": 0, "Depth": 6, "NRand": 2 if ctx.quick() else 12}, "-3,0")]
    for ko in range(1, NKO + 1):
        plans.append(({"KO": ko, "Depth": 24, "NRand": 40 if ctx.quick() else 600}, "-27,-3,0,5"))     # -27: ticks of 7.5 ns
    for sub, scales in plans:
        run = run_tlc(ctx, "MC_Objects", "Gen_Objects.cfg", workers=4, subst=sub, capture="gen-obj.txt", timeout=3000)
        n = count_replay(run["out"])
        if n == 0:
            raise ToolError("object generator produced no behaviours (%s)" % sub)
        rep = run_harness(["replay-obj", run["out"], scales], release=release)
        if rep["lines"] != n:
            raise ToolError("harness read %d of %d behaviours" % (rep["lines"], n))
        ctx.traces += n * len(scales.split(","))
        ctx.evaluations += rep["evals"]
        if sub["KO"] == 5:
            for obj in replay_lines(run["out"]):
                obj["ops"] = obj["ops"][:6]; obj["obs"] = obj["obs"][:6]
                ctx.sample({"replayed_object_history": obj})
                break
        os.remove(run["out"])
        reps.append(rep)
    return merge_reports(reps)


RULE_OBJ = ("TLC generates operation histories (update at arbitrary, non-monotone times into targets with different prior contents / start_with / clone) "
            "on a heap of up to 3 timeline objects, for 13 object shapes and for EVERY list of 0..3 components over 8 timeline shapes (all orders), "
            "with the spec's predictions (value terms and aggregate metadata after every operation); replayed on real P4Timeline / MergedTimeline "
            "objects at ticks from 2^-27 s to 32 s incl. idempotence, independence of prior target contents, bit-identity with a timeline built "
            "afresh from the same description (+ latest start_with) that was never evaluated before, and the raw vs. wrapped single timeline")


@check("C09")
def c09(ctx):
    objects_mc(ctx)
    rep = objects_legA(ctx)
    judge_replay(ctx, rep, lambda m: m.get("class") in ("value", "idempotent", "prior-contents", "history-dependent", "meta"), "results depend on something other than (timeline, start_with, time)")
    return "model_checking", RULE_OBJ


@check("C12")
def c12(ctx):
    objects_mc(ctx)
    rep = objects_legA(ctx)
    judge_replay(ctx, rep, lambda m: m.get("class") in ("value", "meta", "single-wrapped"), "merged timeline is not the ordered overlay with aggregate timing")
    ctx.assumptions += ["for repeats of equal rank (None vs Times(0)) any maximal element is accepted"]
    return "model_checking", RULE_OBJ


@check("C20")
def c20(ctx):
    run_tlc(ctx, "MC_TimeScale", "MC_TimeScale_quick.cfg", workers=4)
    run_apalache(ctx, "TimeScaleInt", "Inv")
    run_apalache(ctx, "TimeScaleInt", "NoPrematureEnd", cinit="CInitWrap", expect_violation=True)
    # leg B in BOTH build profiles: identical logs, both accepted by the spec
    logs = []
    for release in (False, True):
        tr = ctx.path("ts-%s.ndjson" % ("release" if release else "debug"))
        rep = run_harness(["drive-ts", ctx.seed, 300 if ctx.quick() else 4000, tr], release=release)
        logs.append((tr, rep))
    ok, rej, _ = run_trace(ctx, "Trace_TimeScale", logs[0][0])
    ctx.traces += logs[0][1]["configs"]
    ctx.evaluations += logs[0][1]["events"]
    if not ok:
        ctx.violation("trace rejected (debug build)", {"first_unmatched_record": rej})
    if open(logs[0][0]).read() != open(logs[1][0]).read():
        ctx.violation("debug and release builds log different observations for the same time-scale inputs", {"what": "drive-ts logs differ"})
    # leg A with huge repeat counts (Times(u32::MAX)) in both profiles
    for release in (False, True):
        rep = objects_legA(ctx, release=release)
        judge_replay(ctx, rep, lambda m: True, "objects incl. Times(u32::MAX), %s build" % ("release" if release else "debug"))
    # supplementary sweep: arbitrary finite f32 inputs, both profiles, identical digests
    n = 4000 if ctx.quick() else 200000
    ex = [run_harness(["drive-extreme", ctx.seed, n], release=r) for r in (False, True)]
    ctx.evaluations += ex[0]["evaluations"]
    ctx.extra["extreme_sweep"] = {"configs": ex[0]["configs"], "evaluations": ex[0]["evaluations"], "digest_debug": ex[0]["digest"], "digest_release": ex[1]["digest"]}
    for e, prof in zip(ex, ("debug", "release")):
        for i in e["first"]:
            ctx.violation("extreme input (%s build)" % prof, i)
        for i in e["animator_issues"] + e["endless_issues"]:
            ctx.violation("animator with an astronomically large advance (%s build)" % prof, i)
    if ex[0]["digest"] != ex[1]["digest"]:
        ctx.violation("debug and release builds produce different results on the extreme-input sweep", {"debug": ex[0]["digest"], "release": ex[1]["digest"]})
    ctx.assumptions += ["domain: cycle > 0, finite delay, and an exact total duration representable in f32",
                        "the arbitrary-f32 sweep is supplementary (oracle: no panic, finite, in range, debug = release), not spec-decided"]
    return "model_checking", ("Apalache: every repeat count N (no wrap: negative control with symbolic modulus must fail); TLC validates the exact-tick traces incl. "
                              "Times(u32::MAX) recorded in a debug and a release build (logs must be identical); object histories incl. huge repeat counts replayed in both "
                              "profiles; seeded sweep of arbitrary finite f32 durations/delays/times/values with boundary repeat counts in both profiles")


# =========================================================================================
#  pure functions: C13 (easing) and C14 (lerp)
# =========================================================================================
@check("C13")
def c13(ctx):
    run = run_tlc(ctx, "MC_Easing", "MC_Easing.cfg", workers=2, capture="gen-easing.txt")
    if count_replay(run["out"]) != 29:
        raise ToolError("MC_Easing did not print 29 tables")
    ctx.extra["model_facts"] = "Endpoints, XMonotone, InRange, YMonotone (non-Back), MirrorCP, ParamIsNotX for N = 64 on the published control points"
    # leg A: exact tables of the definition (D) and of the as-found parameter evaluation (I)
    rep = run_harness(["easing-tables", run["out"]])
    ctx.traces += 29
    ctx.evaluations += sum(e["points"] * 2 for e in rep["easings"]) + rep["custom_checked"]
    ctx.extra["easing_classification"] = {e["easing"]: {"class": e["class"], "max_err_definition": e["max_err_definition"], "max_err_param": e["max_err_param"]} for e in rep["easings"]}
    for e in rep["easings"]:
        if e["class"] != "definition":
            ctx.violation("Easing::%s does not equal its published cubic Bezier timing function at horizontal position x" % e["easing"],
                          {"easing": e["easing"], "class": e["class"], "worst_definition": e["worst_definition"], "worst_param": e["worst_param"]})
    ctx.sample({"table_check": rep["easings"][9]})
    for b in rep["custom_bad"]:
        ctx.violation("a custom easing is not used as given", b)
    # leg B: dense sweep of the real calc validated by TLC against the C13 laws
    tr = ctx.path("easing.ndjson")
    st = run_harness(["drive-easing", tr])
    ok, rej, _ = run_trace(ctx, "Trace_Easing", tr)
    ctx.traces += 29
    ctx.evaluations += st["evaluations"]
    if not ok:
        ctx.violation("trace rejected: an easing violates end points / range / monotonicity / identity / mirror laws", {"first_unmatched_record": rej})
    # custom easings inside timelines are exercised by the C01 replay (ids 2..5)
    ctx.assumptions += ["control points transcribed from the CSS / easings.net values the repository documents; cross-checked by the mirror relations",
                        "definition compared at 65 exact curve points per easing with tolerance 2e-4; laws on a 1/1024 grid plus 2^-k neighbourhoods of 0 and 1"]
    return "model_checking", ("TLC checks the model facts on the control-point table and prints, per easing, the exact curve points (Bx, By)(k/64); the harness evaluates the real "
                              "calc at x = Bx/den (definition) and at k/64 (as-found parameter evaluation) and classifies each easing; the real calc's dense sweep is validated by TLC "
                              "(Trace_Easing) against end points, range, monotonicity, identity and mirror laws; custom easings are compared bit for bit with the given function")


@check("C14")
def c14(ctx):
    run_tlc(ctx, "MC_Lerp", "MC_Lerp_quick.cfg", workers=8, subst={"Lo": 0, "Hi": 255})
    if not ctx.quick():
        run_tlc(ctx, "MC_Lerp", "MC_Lerp_quick.cfg", workers=8, subst={"Lo": "<- LoSigned", "Hi": 127})
    tr = ctx.path("lerp.ndjson")
    st = run_harness(["drive-lerp", ctx.seed, "quick" if ctx.quick() else "full", tr], timeout=3000)
    ok, rej, _ = run_trace(ctx, "Trace_Lerp", tr, timeout=3000)
    ctx.traces += st["records"]
    ctx.evaluations += st["evaluations"]
    ctx.extra["lerp_driver"] = st
    with open(tr) as f:
        for i, l in enumerate(f):
            if i in (5, 900):
                ctx.sample({"validated_record": json.loads(l)})
    if not ok:
        ctx.violation("trace rejected: a recorded lerp result is not allowed by Lerp.tla", {"first_unmatched_record": rej})
    # records TLC accepted only under the as-found f32 rounding of intermediates: the known finding (never silent)
    dev = re.findall(r'<<"DEVIATION", "f32-inexact-intermediate", "(\w+)", "(\w+)", (-?\d+), (\d+), (-?\d+)>>', open(ctx.path("trace-Trace_Lerp.txt")).read())
    ctx.extra["f32_rounding_deviations"] = {"records": len(dev), "first": dev[:3]}
    if dev:
        ctx.violation("an integer lerp result is not the exactly rounded interpolation (one f32 spacing off)",
                      {"class": "f32-inexact-intermediate", "count": len(dev), "example": {"record": dev[0][0], "type": dev[0][1], "a": int(dev[0][2]), "index": int(dev[0][3]), "result": int(dev[0][4])}})
    ctx.assumptions += ["integer results must be the nearest integer exactly when every f32 intermediate is exact (max(|a|,|b|)*den < 2^24); otherwise a result that is not the nearest integer but within one f32 spacing is accepted by the trace specification "
                        "and reported as the known finding C14-f32-intermediate-rounding; lerp(a,a,x) = a exactly below 2^22, "
                        "either neighbour within 2^-20 of a tie; end points always exact",
                        "float-comparison laws (betweenness to 1 ulp, f64 to f32 precision) and glam component-wise equality are judged in the harness and enter the trace as counts",
                        "Quat / DQuat (glam's own normalising lerp) are not claimed"]
    return "model_checking", ("TLC checks the lerp laws on Lerp.tla for all 65536 pairs of an 8-bit type x 17 abscissae; the real Lerp::lerp is swept (8-bit pairs x k/16; the f32 neighbours of "
                              "0, 1/2, 1; boundary, mixed-magnitude and 24-bit-mantissa values for 16/32/64-bit types; m*2^s beyond 2^31; f32/f64; glam vectors) and every record is "
                              "validated by TLC against the exact integer model")


# =========================================================================================
#  macros: C15 (timeline!), C16 (animator!), C17 (derive(Animate))
# =========================================================================================
GEN = os.path.join(ROOT, "gen")


def build_gen(ctx, gen_dir, binary="gen"):
    env = dict(os.environ)
    env["VERIF_GEN_DIR"] = gen_dir
    p = subprocess.run(["cargo", "build", "--offline", "--quiet", "--bin", binary], cwd=GEN, capture_output=True, text=True, timeout=1800, env=env)
    if p.returncode == 0:
        import vlib
        vlib._built.add((GEN, False))      # run_harness must not rebuild it without VERIF_GEN_DIR
    return p


def rustc_rejects(ctx, files, deps_dir):
    """Compiles each file against the freshly built mina rlib; returns list of (file, accepted, first error line)."""
    rlibs = sorted(f for f in os.listdir(deps_dir) if f.startswith("libmina-") and f.endswith(".rlib"))
    if not rlibs:
        raise ToolError("no libmina rlib in " + deps_dir)
    rlib = os.path.join(deps_dir, max(rlibs, key=lambda f: os.path.getmtime(os.path.join(deps_dir, f))))
    out = []
    for f in files:
        p = subprocess.run(["rustc", "--edition", "2021", "--crate-type", "lib", "--emit=metadata", "-o", ctx.path("ill.rmeta"),
                            "-L", "dependency=" + deps_dir, "--extern", "mina=" + rlib, f], capture_output=True, text=True, timeout=300)
        err = [l for l in p.stderr.split("\n") if l.startswith("error")]
        out.append((f, p.returncode == 0, err[0][:200] if err else ""))
    return out


@check("C15")
def c15(ctx):
    run = run_tlc(ctx, "MC_Grammar", "MC_Grammar.cfg", workers=4, subst={"NRand": 60 if ctx.quick() else 400}, capture="gen-grammar.txt", timeout=3000)
    n = count_replay(run["out"])
    if n == 0:
        raise ToolError("grammar generator produced no sentences")
    gdir = ctx.path("gen")
    p = subprocess.run(["python3", os.path.join(ROOT, "bin", "gen_macros.py"), "sentences", run["out"], gdir], capture_output=True, text=True)
    if p.returncode != 0:
        raise ToolError("gen_macros failed: " + p.stderr[-1000:])
    counts = json.loads(p.stdout.strip().split("\n")[-1])
    b = build_gen(ctx, gdir)
    if b.returncode != 0:
        if "sentences.rs" not in b.stderr:
            raise ToolError("the repository (or the harness) does not compile: " + b.stderr[-1500:])
        # a well-formed sentence of the grammar that the real macro rejects is itself a violation
        ctx.violation("a well-formed sentence does not compile with the real macro (or the twin does not)", {"rustc": b.stderr[-1500:]})
        return "model_checking", RULE_GRAMMAR
    rep = run_harness([run["out"]], which=GEN, binary="gen")
    ctx.traces += counts["sentences"] + counts["merged"]
    ctx.evaluations += rep["evals"]
    sents = json.load(open(os.path.join(gdir, "sentences.json")))
    ctx.sample({"sentence": sents[len(sents) // 2]["tokens"]})
    ctx.sample({"sentence": sents[-1]["tokens"]})
    judge_replay(ctx, rep, lambda m: True, "timeline! sentence vs builder twin vs documented reading")
    # ill-formed sentences must be rejected at compile time; the controls must compile
    ill = json.load(open(os.path.join(gdir, "ill.json")))
    files = [os.path.join(gdir, "ill_%02d.rs" % j) for j in range(len(ill))]
    res = rustc_rejects(ctx, files, os.path.join(GEN, "target", "debug", "deps"))
    ctx.extra["ill_formed"] = [{"class": it["class"], "tokens": it["tokens"], "rejected": not acc, "error": err} for it, (_, acc, err) in zip(ill, res)]
    for it, (_, acc, err) in zip(ill, res):
        if it["class"].startswith("control"):
            if not acc:
                ctx.violation("a well-formed control sentence is rejected", {"tokens": it["tokens"], "error": err})
        elif acc:
            ctx.violation("an ill-formed sentence is silently accepted", {"class": it["class"], "tokens": it["tokens"]})
    ctx.traces += len(ill)
    ctx.assumptions += ["builder twin uses the documented conversions literally: N/1000 for ms, N/100 for %, decimal literals for seconds",
                        "sampled times avoid the exact phase-boundary instants of the millisecond grid (f32-ambiguous); macro vs twin is compared bit for bit regardless",
                        "compile-time rejection is the verdict of rustc on one file per ill-formed sentence"]
    return "model_checking", RULE_GRAMMAR


RULE_GRAMMAR = ("TLC draws pseudo-random sentences (<= 7 arguments, every prefix) over the argument alphabet of Grammar.tla (duration/delay literal forms int, float, "
                "underscored, s/ms incl. fractional milliseconds, optional `for`; Nx / infinite; reverse; easing paths; from/to/N% keyframes incl. fractional percentages and any field subset), checks "
                "that the Reading is invariant under swapping arguments of different kinds, and prints each with its Reading and predicted values; a printer renders the "
                "macro tokens (one sentence in three with every value spelled through a caller local named like something an expansion might bind) and the builder twin; the real macro compiles them; at run time macro == twin bit for bit (metadata and values), macro == spec within "
                "tolerance, merged lists == MergedTimeline::of(twins) and == ordered overlay; ill-formed variants (one per class, embedded in generated sentences) must be "
                "rejected by rustc")


@check("C16")
def c16(ctx):
    run = run_tlc(ctx, "MC_AnimGrammar", "MC_AnimGrammar.cfg", workers=4, subst={"NBlocks": 120 if ctx.quick() else 1500}, capture="gen-blocks.txt", timeout=3000)
    n = count_replay(run["out"])
    if n == 0:
        raise ToolError("block generator produced no blocks")
    gdir = ctx.path("genb")
    p = subprocess.run(["python3", os.path.join(ROOT, "bin", "gen_macros.py"), "blocks", run["out"], gdir], capture_output=True, text=True)
    if p.returncode != 0:
        raise ToolError("gen_macros failed: " + p.stderr[-1000:])
    b = build_gen(ctx, gdir, binary="genb")
    if b.returncode != 0:
        if "blocks.rs" not in b.stderr:
            raise ToolError("the repository (or the harness) does not compile: " + b.stderr[-1500:])
        ctx.violation("a well-formed animator! block does not compile with the real macro (or the twin does not)", {"rustc": b.stderr[-1500:]})
        return "model_checking", RULE_BLOCKS
    rep = run_harness([run["out"]], which=GEN, binary="genb")
    ctx.traces += n
    ctx.evaluations += rep["evals"]
    blocks = json.load(open(os.path.join(gdir, "blocks.json")))
    ctx.sample({"block": blocks[0]["tokens"]})
    ctx.sample({"block": blocks[len(blocks) // 2]["tokens"]})
    judge_replay(ctx, rep, lambda m: True, "animator! block vs StateAnimatorBuilder twin vs documented reading")
    ctx.assumptions += ["blocks are restricted to C04's domain (distinct keyframe positions per property)", "durations on the 1/8 s grid"]
    return "model_checking", RULE_BLOCKS


RULE_BLOCKS = ("TLC draws pseudo-random animator! blocks (default clause absent / state only / inline subset / expression; 1-3 arms with `A | B`, single or "
               "bracketed merged timelines, explicit and `default` keyframe bodies, all argument forms), computes the documented Reading as an Animator.tla "
               "configuration (checking ReadingFacts, Consistent, NoJump, PauseRules on it) and drives it with a pseudo-random history of 30 operations; the real "
               "animator! compiles every block; the macro-built animator must equal the StateAnimatorBuilder twin bit for bit after every operation (values, state, "
               "is_ended, internal clock and pause record) and the specification's predicted observations")


def shapes_run(ctx, nshapes):
    """C17 machinery (also used by C08 for the struct-shape part): returns the report."""
    run = run_tlc(ctx, "MC_Shapes", "MC_Shapes.cfg", workers=4, subst={"NShapes": nshapes}, capture="gen-shapes.txt", timeout=3000)
    n = count_replay(run["out"])
    if n == 0:
        raise ToolError("shape generator produced no shapes")
    gdir = ctx.path("gens")
    p = subprocess.run(["python3", os.path.join(ROOT, "bin", "gen_macros.py"), "shapes", run["out"], gdir], capture_output=True, text=True)
    if p.returncode != 0:
        raise ToolError("gen_macros failed: " + p.stderr[-1000:])
    b = build_gen(ctx, gdir, binary="gens")
    if b.returncode != 0:
        if "shapes.rs" not in b.stderr:
            raise ToolError("the repository (or the harness) does not compile: " + b.stderr[-1500:])
        ctx.violation("a supported struct shape does not compile with the real derive (a predicted setter is missing, or the output is ill-typed)", {"rustc": b.stderr[-1800:]})
        return None
    rep = run_harness([run["out"]], which=GEN, binary="gens")
    ctx.traces += n
    ctx.evaluations += rep["evals"]
    shapes = json.load(open(os.path.join(gdir, "shapes.json")))
    ctx.sample({"shape": shapes[0]})
    ill = json.load(open(os.path.join(gdir, "ill.json")))
    files = [os.path.join(gdir, "ill_%02d.rs" % j) for j in range(len(ill))]
    res = rustc_rejects(ctx, files, os.path.join(GEN, "target", "debug", "deps"))
    ctx.extra["setter_existence"] = [{"class": it["class"], "shape": it["shape"], "field": it["field"], "compiles": acc} for it, (_, acc, err) in zip(ill, res)]
    for it, (_, acc, err) in zip(ill, res):
        if it["class"].startswith("control"):
            if not acc:
                ctx.violation("the setter of an animated field does not exist", {"shape": it["shape"], "field": it["field"], "error": err})
        elif acc:
            ctx.violation("a setter exists for a field excluded from animation", {"shape": it["shape"], "field": it["field"]})
    ctx.traces += len(ill)
    return rep


RULE_SHAPES = ("TLC draws pseudo-random struct shapes (1..6 fields over f32/f64/u8/i16/i32/u32, any #[animate] subset incl. none, doc comments before the marker, "
               "other attributes on excluded fields, private / pub / pub(crate), local or remote proxy, rotated field order) each with a keyframe list and timing, and "
               "predicts the animated set and every evaluation with Timeline.tla; the real derive compiles every shape (using exactly the predicted setters); values at "
               "every tick, untouched excluded fields, keyframe_from's copy set and the metadata accessors are compared; setter (non-)existence is rustc's verdict on "
               "one file per sampled shape")


@check("C17")
def c17(ctx):
    rep = shapes_run(ctx, 80 if ctx.quick() else 1500)
    if rep is not None:
        judge_replay(ctx, rep, lambda m: True, "derive(Animate) output vs specification")
    ctx.assumptions += ["field types from {f32,f64,u8,i16,i32,u32}; generics are not supported by the derive and not generated"]
    return "model_checking", RULE_SHAPES
