//! A timeline type wired BY HAND on the library's re-exported building blocks (TimelineConfiguration,
//! TimelineBuilderArguments, SubTimeline, prepare_frame, TimeScale), following the shipped
//! `examples/macroless_timeline.rs` line by line - the documented way to do without the proc macros.
//! The timeline replay runs every behaviour through it as well as through the derive(Animate) output.
use crate::common::*;
use crate::tl::{scale, vscale};
use mina::{
    prepare_frame, Easing, Keyframe, KeyframeBuilder, Repeat, SubTimeline, TimeScale, Timeline, TimelineBuilder, TimelineBuilderArguments,
    TimelineConfiguration, TimelineConfigurationBuilder,
};
use serde_json::Value;

#[derive(Clone, Debug, Default)]
pub struct HwData { x: Option<f32>, y: Option<f32>, n: Option<i32>, m: Option<i16> }

pub struct HwKeyframeBuilder { data: HwData, easing: Option<Easing>, normalized_time: f32 }
impl HwKeyframeBuilder {
    pub fn new(normalized_time: f32) -> Self { Self { normalized_time, data: Default::default(), easing: None } }
    pub fn x(mut self, v: f32) -> Self { self.data.x = Some(v); self }
    pub fn y(mut self, v: f32) -> Self { self.data.y = Some(v); self }
    pub fn n(mut self, v: i32) -> Self { self.data.n = Some(v); self }
    pub fn m(mut self, v: i16) -> Self { self.data.m = Some(v); self }
}
impl KeyframeBuilder for HwKeyframeBuilder {
    type Data = HwData;
    fn build(&self) -> Keyframe<HwData> { Keyframe::new(self.normalized_time, self.data.clone(), self.easing.clone()) }
    fn easing(mut self, easing: Easing) -> Self { self.easing = Some(easing); self }
}

#[derive(Clone)]
pub struct HwTimeline { boundary_times: Vec<f32>, timescale: TimeScale, t_x: SubTimeline<f32>, t_y: SubTimeline<f32>, t_n: SubTimeline<i32>, t_m: SubTimeline<i16> }

impl Timeline for HwTimeline {
    type Target = P4;
    fn cycle_duration(&self) -> Option<f32> { Some(self.timescale.get_cycle_duration()) }
    fn delay(&self) -> f32 { self.timescale.get_delay() }
    fn duration(&self) -> f32 { self.timescale.get_duration() }
    fn repeat(&self) -> Repeat { self.timescale.get_repeat() }
    fn start_with(&mut self, values: &P4) {
        self.t_x.override_start_value(values.x);
        self.t_y.override_start_value(values.y);
        self.t_n.override_start_value(values.n);
        self.t_m.override_start_value(values.m);
    }
    fn update(&self, values: &mut P4, time: f32) {
        let Some((normalized_time, frame_index, enable_start_override)) = prepare_frame(time, self.boundary_times.as_slice(), &self.timescale) else { return; };
        if let Some(x) = self.t_x.value_at(normalized_time, frame_index, enable_start_override) { values.x = x; }
        if let Some(y) = self.t_y.value_at(normalized_time, frame_index, enable_start_override) { values.y = y; }
        if let Some(n) = self.t_n.value_at(normalized_time, frame_index, enable_start_override) { values.n = n; }
        if let Some(m) = self.t_m.value_at(normalized_time, frame_index, enable_start_override) { values.m = m; }
    }
}

impl TimelineBuilder<HwTimeline> for TimelineConfiguration<HwData> {
    fn build(self) -> HwTimeline {
        let args = TimelineBuilderArguments::from(self);
        HwTimeline {
            timescale: args.timescale,
            t_x: SubTimeline::from_keyframes(&args.keyframes, Default::default(), |k| k.x, args.default_easing.clone()),
            t_y: SubTimeline::from_keyframes(&args.keyframes, Default::default(), |k| k.y, args.default_easing.clone()),
            t_n: SubTimeline::from_keyframes(&args.keyframes, Default::default(), |k| k.n, args.default_easing.clone()),
            t_m: SubTimeline::from_keyframes(&args.keyframes, Default::default(), |k| k.m, args.default_easing.clone()),
            boundary_times: args.boundary_times,
        }
    }
}

/// The hand-wired timeline for a cfg object {kfs, de, tm} at `tick = scale(s)` seconds (cf. tl::config_tl).
pub fn build_hw(cfg: &Value, pd: i64, pmap: &[usize], s: i64) -> HwTimeline {
    let tm = &cfg["tm"];
    let tick = scale(s);
    let mut b = TimelineConfiguration::<HwData>::default()
        .duration_seconds(tm["cyc"].as_i64().unwrap() as f32 * tick)
        .delay_seconds(tm["del"].as_i64().unwrap() as f32 * tick)
        .repeat(repeat_of(tm["rep"].as_i64().unwrap()))
        .reverse(tm["rev"].as_bool().unwrap())
        .default_easing(easing(cfg["de"].as_i64().unwrap()));
    for kf in cfg["kfs"].as_array().unwrap() {
        let mut k = HwKeyframeBuilder::new(kf["pos"].as_i64().unwrap() as f32 / pd as f32);
        for (i, d) in kf["d"].as_array().unwrap().iter().enumerate() {
            if let Some(v) = d.as_array().unwrap().first() {
                let v = v.as_i64().unwrap();
                k = match pmap[i] { 1 => k.x(v as f32 * vscale()), 2 => k.y(v as f32 * vscale()), 3 => k.n(v as i32), 4 => k.m(v as i16), _ => unreachable!() };
            }
        }
        let e = kf["e"].as_i64().unwrap();
        if e != 0 { k = k.easing(easing(e)); }
        b = b.keyframe(k);
    }
    b.build()
}
