//! Leg A for timelines: replay spec-generated behaviours (REPLAY lines of Gen_Timeline /
//! Pred_Timeline) through the public builder API and the derive(Animate) output.
use crate::common::*;
use mina::prelude::*;
use serde_json::{json, Value};
use std::panic::{catch_unwind, AssertUnwindSafe};

pub fn pmap_of(line: &Value) -> Vec<usize> {
    match line.get("pmap") {
        Some(v) => v.as_array().unwrap().iter().map(|x| x.as_u64().unwrap() as usize).collect(),
        None => { let np = line["np"].as_u64().unwrap(); if np == 2 { vec![1, 3] } else { (1..=np as usize).collect() } }
    }
}

/// Tick length in seconds for a scale code: 2^s, except the two codes of the tolerance passes of the
/// animator replay - TENTH (0.1 s: cycle totals that are not f32 multiples of the cycle) and SUBMICRO
/// (512 ns: frames shorter than a microsecond).
pub const TENTH: i64 = 1000;
pub const SUBMICRO: i64 = 1001;
pub fn scale(s: i64) -> f32 { match s { TENTH => 0.1, SUBMICRO => 5.12e-7, _ => (2.0f64).powi(s as i32) as f32 } }

/// Builds the timeline described by a cfg object {kfs, de, tm} at `tick = 2^s` seconds.
pub fn build_tl(cfg: &Value, pd: i64, pmap: &[usize], s: i64) -> P4Timeline {
    config_tl(cfg, pd, pmap, s).build()
}

/// Scale applied to the values of the float properties (1.0 normally; 2^121 in the extreme-value pass).
pub static VSCALE_BITS: std::sync::atomic::AtomicU32 = std::sync::atomic::AtomicU32::new(0x3f80_0000);
pub fn vscale() -> f32 { f32::from_bits(VSCALE_BITS.load(std::sync::atomic::Ordering::Relaxed)) }
pub fn set_vscale(v: f32) { VSCALE_BITS.store(v.to_bits(), std::sync::atomic::Ordering::Relaxed); }

/// Variants of a described timeline that the specification says are equivalent (or differ in one known value).
#[derive(Default, Clone, Copy)]
pub struct Variant {
    /// (insertion index, copies): the keyframe is added `copies` more times directly after itself
    /// (MC_Keyframes!DupNeutral: such a keyframe takes no part in anything)
    pub dup: Option<(usize, usize)>,
    /// (value, replacement) for the i32 property at the 100% keyframe
    pub big100: Option<(i64, i32)>,
    /// keyframes are added in the order k, k+1, .., n-1, 0, .., k-1 (only meaningful when all positions are distinct:
    /// the result does not depend on the insertion order then - MC_Keyframes!OrderFree)
    pub rot: usize,
    /// 1: keyframes added in ascending order of position, 2: in descending order (0: as described, rotated by `rot`)
    pub sorted: u8,
    /// every value v of the i32 property becomes sign(v) * (8388609 + 2|v|): odd, in [2^23, 2^24) - the top of the
    /// range in which f32 represents every integer
    pub band: bool,
}
pub fn band_of(v: i64) -> i32 { if v < 0 { -(8388609 + 2 * v.unsigned_abs() as i32) } else { 8388609 + 2 * v as i32 } }

fn nk_all_distinct(line: &Value) -> bool { distinct_positions(line) }

/// all keyframe positions of the description are distinct
pub fn distinct_positions(cfg: &Value) -> bool {
    let mut pos: Vec<i64> = cfg["kfs"].as_array().unwrap().iter().map(|k| k["pos"].as_i64().unwrap()).collect();
    pos.sort(); pos.windows(2).all(|w| w[0] != w[1])
}

/// The un-built builder (TimelineConfiguration) for the same description.
pub fn config_tl(cfg: &Value, pd: i64, pmap: &[usize], s: i64) -> TimelineConfiguration<P4KeyframeData> { config_tl_var(cfg, pd, pmap, s, Variant::default()) }

pub fn config_tl_var(cfg: &Value, pd: i64, pmap: &[usize], s: i64, var: Variant) -> TimelineConfiguration<P4KeyframeData> {
    let tm = &cfg["tm"];
    let tick = scale(s);
    let mut b = P4::timeline()
        .duration_seconds(tm["cyc"].as_i64().unwrap() as f32 * tick)
        .delay_seconds(tm["del"].as_i64().unwrap() as f32 * tick)
        .repeat(repeat_of(tm["rep"].as_i64().unwrap()))
        .reverse(tm["rev"].as_bool().unwrap())
        .default_easing(easing(cfg["de"].as_i64().unwrap()));
    let nkf = cfg["kfs"].as_array().unwrap().len();
    let mut order: Vec<usize> = (0..nkf).map(|step| (step + var.rot) % nkf).collect();
    if var.sorted != 0 {
        order.sort_by_key(|&i| cfg["kfs"][i]["pos"].as_i64().unwrap());
        if var.sorted == 2 { order.reverse(); }
    }
    for ki in order {
        let kf = &cfg["kfs"][ki];
        let copies = match var.dup { Some((j, n)) if j == ki => n + 1, _ => 1 };
        for _ in 0..copies {
            let mut k = P4::keyframe(kf["pos"].as_i64().unwrap() as f32 / pd as f32);
            for (i, d) in kf["d"].as_array().unwrap().iter().enumerate() {
                if let Some(v) = d.as_array().unwrap().first() {
                    let v = v.as_i64().unwrap();
                    let n = match var.big100 { Some((orig, big)) if orig == v && kf["pos"].as_i64().unwrap() == pd => big, _ => if var.band { band_of(v) } else { v as i32 } };
                    k = match pmap[i] { 1 => k.x(v as f32 * vscale()), 2 => k.y(v as f32 * vscale()), 3 => k.n(n), 4 => k.m(v as i16), _ => unreachable!() };
                }
            }
            let e = kf["e"].as_i64().unwrap();
            if e != 0 { k = k.easing(easing(e)); }
            b = b.keyframe(k);
        }
    }
    b
}

/// start_with values: the override terms of the line for mapped props, sentinels+1000 elsewhere.
pub fn start_values(ov: &Value, pmap: &[usize]) -> Option<P4> {
    let arr = ov.as_array().unwrap();
    if arr.iter().all(|o| o.as_array().unwrap().is_empty()) { return None; }
    let mut v = P4 { x: 501.0, y: 502.0, n: 503, m: 504, k: 505.0, tag: None };
    for (i, o) in arr.iter().enumerate() {
        let t = &o.as_array().unwrap()[0];
        v.set(pmap[i], eval_term(t).v * if pmap[i] <= 2 { vscale() as f64 } else { 1.0 });
    }
    Some(v)
}

pub const DUP_COPIES: usize = 66000;
pub const DUP_EVERY: usize = 24;

type Counts = std::collections::BTreeMap<String, u64>;
pub struct Tally { pub lines: u64, pub evals: u64, pub by_class: Counts, pub mism_by_class: Counts, pub tags: Counts, pub mism: Vec<Value>, pub nmism: u64 }
impl Tally {
    pub fn new() -> Self { Tally { lines: 0, evals: 0, by_class: Default::default(), mism_by_class: Default::default(), tags: Default::default(), mism: vec![], nmism: 0 } }
    pub fn miss(&mut self, v: Value) {
        self.nmism += 1;
        let c = v.get("class").and_then(|c| c.as_str()).unwrap_or("?").to_string();
        *self.mism_by_class.entry(c.clone()).or_insert(0) += 1;
        // keep the first few of every class so that each property's check sees its own
        if self.mism.iter().filter(|m| m.get("class").and_then(|x| x.as_str()) == Some(c.as_str())).count() < 6 { self.mism.push(v); }
    }
    pub fn absorb(&mut self, o: Tally) {
        self.evals += o.evals;
        for (k, v) in o.by_class { *self.by_class.entry(k).or_insert(0) += v; }
        for m in o.mism { self.miss(m); }
    }
    pub fn tag(&mut self, t: &str) { *self.tags.entry(t.to_string()).or_insert(0) += 1; }
    pub fn report(&self) -> Value { json!({"lines": self.lines, "evals": self.evals, "by_class": self.by_class, "tags": self.tags,
        "mismatches": self.nmism, "mism_by_class": self.mism_by_class, "first": self.mism}) }
}

pub fn check_fields(tally: &mut Tally, lineno: usize, s: i64, t: i64, target: &P4, exp: &Value, cls: Option<&Value>, pmap: &[usize], what: &str) {
    // animated, mapped properties
    for (i, alts) in exp.as_array().unwrap().iter().enumerate() {
        let p = pmap[i];
        let got = target.get(p);
        let c = cls.map(|c| c[i].as_str().unwrap_or("?").to_string()).unwrap_or_else(|| "?".into());
        *tally.by_class.entry(c.clone()).or_insert(0) += 1;
        tally.evals += 1;
        let ok = if vscale() != 1.0 && !P4::is_int(p) { agrees_any_scaled(alts, got, SENT.get(p), vscale() as f64) } else { agrees_any(alts, got, P4::is_int(p), SENT.get(p)) };
        if !ok {
            tally.miss(json!({"line": lineno, "scale": s, "t": t, "prop": p, "class": c, "expected": alts, "got": got, "what": what}));
        }
    }
    // properties the timeline has no keyframe for, and fields excluded from animation (C08)
    for p in 1..=4usize {
        if !pmap.contains(&p) && target.get(p) != SENT.get(p) {
            tally.miss(json!({"line": lineno, "scale": s, "t": t, "prop": p, "class": "unmapped", "expected": "untouched", "got": target.get(p), "what": what}));
        }
    }
    if target.k.to_bits() != SENT.k.to_bits() || target.tag != SENT.tag {
        tally.miss(json!({"line": lineno, "scale": s, "t": t, "prop": "k/tag", "class": "unanimated-field", "expected": "untouched", "what": what}));
    }
}

/// Compares one timeline (already built, start_with applied) with the predictions of a line.
/// `secs(t)` maps the line's tick times to seconds; times are `line["ts"]` if present, else 0..n.
pub fn check_timeline(local: &mut Tally, lineno: usize, s: i64, line: &Value, tl: &dyn Timeline<Target = P4>, secs: &dyn Fn(i64) -> f32, pmap: &[usize]) {
    let tm = &line["tm"];
    let (cyc, del, rep) = (tm["cyc"].as_i64().unwrap(), tm["del"].as_i64().unwrap(), tm["rep"].as_i64().unwrap());
    // metadata (C03): what was configured, and total = delay + cycle x (repeats + 1)
    let exp_total = if rep == -2 { f32::INFINITY } else if rep == -3 { secs(del) + secs(cyc) * 4294967296.0f32 }
                    else { secs(del) + secs(cyc) * (rep.max(0) + 1) as f32 };
    if tl.delay() != secs(del) || tl.cycle_duration() != Some(secs(cyc)) || tl.repeat() != repeat_of(rep) || tl.duration() != exp_total {
        local.miss(json!({"line": lineno, "scale": s, "class": "meta", "got": [tl.delay(), tl.cycle_duration(), format!("{:?}", tl.repeat()), tl.duration().to_string()],
                          "expected": [secs(del), secs(cyc), rep, exp_total.to_string()]}));
    }
    let evals = line["evals"].as_array().unwrap();
    let cls = line.get("cls").and_then(|c| c.as_array());
    let ts = line.get("ts").and_then(|c| c.as_array());
    for (ti, exp) in evals.iter().enumerate() {
        let t = ts.map(|a| a[ti].as_i64().unwrap()).unwrap_or(ti as i64);
        let mut target = SENT.clone();
        tl.update(&mut target, secs(t));
        check_fields(local, lineno, s, t, &target, exp, cls.map(|c| &c[ti]), pmap, "update");
    }
}

pub fn replay_tl_line(tally: &mut Tally, lineno: usize, line: &Value, scales: &[i64]) {
    let pd = line["pd"].as_i64().unwrap();
    let pmap = pmap_of(line);
    tally.lines += 1;
    let has_ov = start_values(&line["ov"], &pmap).is_some();
    let pos: Vec<i64> = line["kfs"].as_array().unwrap().iter().map(|k| k["pos"].as_i64().unwrap()).collect();
    let ascending = pos.windows(2).all(|w| w[0] <= w[1]);
    if has_ov { tally.tag("lines_with_start_override"); }
    if !ascending { tally.tag("lines_not_ascending"); }
    tally.tag(&format!("keyframes_{}", pos.len()));
    let before = tally.mism.len();
    for &s in scales {
        let r = catch_unwind(AssertUnwindSafe(|| {
            let mut local = Tally::new();
            let mut tl = build_tl(line, pd, &pmap, s);
            if let Some(v) = start_values(&line["ov"], &pmap) { tl.start_with(&v); }
            let tick = scale(s);
            check_timeline(&mut local, lineno, s, line, &tl, &|t| t as f32 * tick, &pmap);
            local
        }));
        match r {
            Ok(local) => tally.absorb(local),
            Err(e) => { let msg = e.downcast_ref::<String>().cloned().or_else(|| e.downcast_ref::<&str>().map(|s| s.to_string())).unwrap_or_default();
                        tally.miss(json!({"line": lineno, "scale": s, "class": "panic", "panic": msg})); }
        }
    }
    // C11 proper: with distinct positions the SAME keyframes added in ascending, in descending and in the line's own
    // order are observationally the same timeline (bit for bit at every tick) - whichever of them the specification
    // agrees with
    if nk_all_distinct(line) && pos.len() >= 2 {
        let r = catch_unwind(AssertUnwindSafe(|| {
            let mut local = Tally::new();
            let s = scales[0];
            let tick = scale(s);
            let mk = |sorted: u8| { let mut tl = config_tl_var(line, pd, &pmap, s, Variant { sorted, ..Variant::default() }).build();
                                    if let Some(v) = start_values(&line["ov"], &pmap) { tl.start_with(&v); } tl };
            let (own, asc, desc) = (mk(0), mk(1), mk(2));
            let ts = line.get("ts").and_then(|c| c.as_array());
            for ti in 0..line["evals"].as_array().unwrap().len() {
                let t = ts.map(|a| a[ti].as_i64().unwrap()).unwrap_or(ti as i64);
                let (mut a, mut b, mut c) = (SENT.clone(), SENT.clone(), SENT.clone());
                own.update(&mut a, t as f32 * tick); asc.update(&mut b, t as f32 * tick); desc.update(&mut c, t as f32 * tick);
                local.evals += 1;
                *local.by_class.entry("order-twins".into()).or_insert(0) += 1;
                if a.bits() != b.bits() || a.bits() != c.bits() {
                    local.miss(json!({"line": lineno, "scale": s, "t": t, "class": "order-dependent", "as_described": a.bits(), "ascending_insertion": b.bits(), "descending_insertion": c.bits(), "what": "update"}));
                    break;
                }
            }
            if (own.delay(), own.duration(), own.cycle_duration(), own.repeat()) != (asc.delay(), asc.duration(), asc.cycle_duration(), asc.repeat()) {
                local.miss(json!({"line": lineno, "scale": s, "class": "order-dependent", "what": "metadata"}));
            }
            local
        }));
        match r {
            Ok(local) => tally.absorb(local),
            Err(e) => { let msg = e.downcast_ref::<String>().cloned().or_else(|| e.downcast_ref::<&str>().map(|s| s.to_string())).unwrap_or_default();
                        tally.miss(json!({"line": lineno, "scale": "insertion-order twins", "class": "panic", "panic": msg})); }
        }
    }
    // the same behaviour through a timeline type wired by hand on the re-exported building blocks
    // (examples/macroless_timeline.rs), at the first scale
    {
        let s = scales[0];
        let r = catch_unwind(AssertUnwindSafe(|| {
            let mut local = Tally::new();
            let mut tl = crate::macroless::build_hw(line, pd, &pmap, s);
            if let Some(v) = start_values(&line["ov"], &pmap) { tl.start_with(&v); }
            let tick = scale(s);
            check_timeline(&mut local, lineno, 3000 + s, line, &tl, &|t| t as f32 * tick, &pmap);
            local
        }));
        match r {
            Ok(local) => tally.absorb(local),
            Err(e) => { let msg = e.downcast_ref::<String>().cloned().or_else(|| e.downcast_ref::<&str>().map(|s| s.to_string())).unwrap_or_default();
                        tally.miss(json!({"line": lineno, "scale": "hand-wired timeline", "class": "panic", "panic": msg})); }
        }
    }
    // extreme but finite values: the same behaviour with every float value multiplied by 2^121 (values up to
    // +-2.9e38, differences beyond f32::MAX)
    {
        // the largest power of two that keeps every value finite (|v| * scale <= 3e38)
        let mut maxabs = 1.0f64;
        for kf in line["kfs"].as_array().unwrap() { for d in kf["d"].as_array().unwrap() { if let Some(v) = d.as_array().unwrap().first() { maxabs = maxabs.max(v.as_i64().unwrap().abs() as f64); } } }
        for o in line["ov"].as_array().unwrap() { if let Some(tm) = o.as_array().unwrap().first() { maxabs = maxabs.max(eval_term(tm).v.abs()); } }
        let over = overshoots(line["de"].as_i64().unwrap()) || line["kfs"].as_array().unwrap().iter().any(|k| overshoots(k["e"].as_i64().unwrap()));
        let vs = extreme_scale(maxabs, over);
        let exp = (vs as f64).log2() as i32;
        set_vscale(vs);
        let r = catch_unwind(AssertUnwindSafe(|| {
            let mut local = Tally::new();
            let mut tl = build_tl(line, pd, &pmap, 0);
            if let Some(v) = start_values(&line["ov"], &pmap) { tl.start_with(&v); }
            check_timeline(&mut local, lineno, 1000 + exp as i64, line, &tl, &|t| t as f32, &pmap);
            local
        }));
        set_vscale(1.0);
        match r {
            Ok(local) => tally.absorb(local),
            Err(_) => tally.miss(json!({"line": lineno, "scale": "values scaled towards f32::MAX", "class": "panic"})),
        }
    }
    // one keyframe repeated DUP_COPIES times (more than 2^16 frames of one property): by the specification the copies
    // take no part in anything (DupNeutral), so every prediction of the line stands
    let nk = pos.len();
    // (copies of a 0% keyframe are not neutral under a substituted start value, which replaces the first one only)
    let dup_ok: Vec<usize> = (0..nk).filter(|&i| pos[i] > 0 || !has_ov).collect();
    if nk >= 2 && lineno % DUP_EVERY == 0 && !dup_ok.is_empty() {
        let j = dup_ok[(lineno / DUP_EVERY) % dup_ok.len()];
        tally.tag("lines_with_66000_copies_of_one_keyframe");
        let r = catch_unwind(AssertUnwindSafe(|| {
            let mut local = Tally::new();
            let mut tl = config_tl_var(line, pd, &pmap, 0, Variant { dup: Some((j, DUP_COPIES)), ..Variant::default() }).build();
            if let Some(v) = start_values(&line["ov"], &pmap) { tl.start_with(&v); }
            check_timeline(&mut local, lineno, 2000 + j as i64, line, &tl, &|t| t as f32, &pmap);
            local
        }));
        match r {
            Ok(local) => tally.absorb(local),
            Err(e) => { let msg = e.downcast_ref::<String>().cloned().or_else(|| e.downcast_ref::<&str>().map(|s| s.to_string())).unwrap_or_default();
                        tally.miss(json!({"line": lineno, "scale": "one keyframe repeated 66000 times", "class": "panic", "panic": msg})); }
        }
    }
    // an i32 value beyond 2^24 (not an f32 number) at a 100% keyframe that is alone at 100%: wherever the
    // specification predicts exactly that keyframe's value (peak of every pass, at and after the end) it is exact
    if let Some(ni) = pmap.iter().position(|&p| p == 3) {
        let kfs = line["kfs"].as_array().unwrap();
        let at100: Vec<&Value> = kfs.iter().filter(|k| k["pos"].as_i64().unwrap() == pd).collect();
        if at100.len() == 1 && !at100[0]["d"][ni].as_array().unwrap().is_empty() {
            let orig = at100[0]["d"][ni][0].as_i64().unwrap();
            let big: i32 = if orig < 0 { -16777217 - orig.unsigned_abs() as i32 * 2 } else { 16777217 + orig as i32 * 2 };
            tally.tag("lines_with_i32_beyond_2^24_at_100%");
            let r = catch_unwind(AssertUnwindSafe(|| {
                let mut local = Tally::new();
                let mut tl = config_tl_var(line, pd, &pmap, 0, Variant { big100: Some((orig, big)), ..Variant::default() }).build();
                if let Some(v) = start_values(&line["ov"], &pmap) { tl.start_with(&v); }
                let ts = line.get("ts").and_then(|c| c.as_array());
                for (ti, exp) in line["evals"].as_array().unwrap().iter().enumerate() {
                    let alts = exp[ni].as_array().unwrap();
                    if !(alts.len() == 1 && alts[0][0] == "i" && alts[0][1].as_i64() == Some(orig)) { continue; }
                    let t = ts.map(|a| a[ti].as_i64().unwrap()).unwrap_or(ti as i64);
                    let mut target = SENT.clone();
                    tl.update(&mut target, t as f32);
                    local.evals += 1;
                    *local.by_class.entry("end-exact-i32".into()).or_insert(0) += 1;
                    if target.n != big {
                        local.miss(json!({"line": lineno, "scale": "i32 beyond 2^24 at the 100% keyframe", "t": t, "prop": 3, "class": line["cls"][ti][ni], "expected": big, "got": target.n, "what": "update"}));
                    }
                }
                local
            }));
            match r {
                Ok(local) => tally.absorb(local),
                Err(e) => { let msg = e.downcast_ref::<String>().cloned().or_else(|| e.downcast_ref::<&str>().map(|s| s.to_string())).unwrap_or_default();
                            tally.miss(json!({"line": lineno, "scale": "i32 beyond 2^24 at the 100% keyframe", "class": "panic", "panic": msg})); }
            }
        }
    }
    // the i32 property with every value moved to the odd integers just below 2^24 (all of them f32 numbers): wherever
    // the position is on a keyframe, up to the delay, or at / after the end, the result is that integer exactly
    if let (Some(ni), false) = (pmap.iter().position(|&p| p == 3), has_ov) {
        let r = catch_unwind(AssertUnwindSafe(|| {
            let mut local = Tally::new();
            let tl = config_tl_var(line, pd, &pmap, 0, Variant { band: true, ..Variant::default() }).build();
            let ts = line.get("ts").and_then(|c| c.as_array());
            for (ti, exp) in line["evals"].as_array().unwrap().iter().enumerate() {
                let alts = exp[ni].as_array().unwrap();
                if alts.is_empty() || !alts.iter().all(|a| a[0] == "i") { continue; }
                // only where the value IS a keyframe's (position on a keyframe, up to the delay, at / after the end): a
                // held stretch between a keyframe and the implicit 100% frame is an interpolation lerp(a, a, x), which
                // from 2^22 on is subject to the f32 rounding recorded as C14's known finding
                if !matches!(line["cls"][ti][ni].as_str(), Some("hit") | Some("pre") | Some("end")) { continue; }
                let defined = |v: i64| line["kfs"].as_array().unwrap().iter().any(|k| k["d"][ni].as_array().unwrap().first().and_then(|x| x.as_i64()) == Some(v));
                // (a plain 0 may also be the type's default of the implicit 0% keyframe: that one is not moved)
                let want: Vec<i32> = alts.iter().map(|a| { let v = a[1].as_i64().unwrap(); if defined(v) { band_of(v) } else { v as i32 } }).collect();
                if alts.iter().any(|a| a[1].as_i64() == Some(0)) && defined(0) { continue; }
                let t = ts.map(|a| a[ti].as_i64().unwrap()).unwrap_or(ti as i64);
                let mut target = SENT.clone();
                tl.update(&mut target, t as f32);
                local.evals += 1;
                *local.by_class.entry("exact-i32-below-2^24".into()).or_insert(0) += 1;
                if !want.contains(&target.n) {
                    local.miss(json!({"line": lineno, "scale": "i32 values moved to odd integers in [2^23, 2^24)", "t": t, "prop": 3, "class": line["cls"][ti][ni], "expected": want, "got": target.n, "what": "update"}));
                }
            }
            local
        }));
        match r {
            Ok(local) => tally.absorb(local),
            Err(e) => { let msg = e.downcast_ref::<String>().cloned().or_else(|| e.downcast_ref::<&str>().map(|s| s.to_string())).unwrap_or_default();
                        tally.miss(json!({"line": lineno, "scale": "i32 values moved to odd integers in [2^23, 2^24)", "class": "panic", "panic": msg})); }
        }
    }
    for m in tally.mism.iter_mut().skip(before) {
        m["ov"] = json!(has_ov); m["ascending"] = json!(ascending);
        m["cfg"] = json!({"kfs": line["kfs"], "de": line["de"], "tm": line["tm"], "ov": line["ov"], "pd": pd});
    }
}
