use harness::*;

fn main() {
    std::panic::set_hook(Box::new(|_| {}));
    let args: Vec<String> = std::env::args().collect();
    let cmd = args.get(1).map(|s| s.as_str()).unwrap_or("");
    match cmd {
        "replay-tl" => {
            let lines = read_lines(&args[2]);
            let scales: Vec<i64> = args.get(3).map(|s| s.split(',').map(|x| x.parse().unwrap()).collect()).unwrap_or(vec![-3, 0, 6]);
            let mut tally = tl::Tally::new();
            for (i, l) in lines.iter().enumerate() { tl::replay_tl_line(&mut tally, i + 1, l, &scales); }
            println!("{}", tally.report());
        }
        "replay-anim" => {
            let lines = read_lines(&args[2]);
            let scales: Vec<i64> = args.get(3).map(|s| s.split(',').map(|x| x.parse().unwrap()).collect()).unwrap_or(vec![-3, 0, 3]);
            let mut tally = tl::Tally::new();
            for (i, l) in lines.iter().enumerate() { anim::replay_anim_line(&mut tally, i + 1, l, &scales); }
            println!("{}", tally.report());
        }
        "replay-obj" => {
            let lines = read_lines(&args[2]);
            let scales: Vec<i64> = args.get(3).map(|s| s.split(',').map(|x| x.parse().unwrap()).collect()).unwrap_or(vec![-3, 0, 5]);
            let mut tally = tl::Tally::new();
            for (i, l) in lines.iter().enumerate() { obj::replay_obj_line(&mut tally, i + 1, l, &scales); }
            println!("{}", tally.report());
        }
        "drive-extreme" => println!("{}", extreme::drive_extreme(args[2].parse().unwrap(), args[3].parse().unwrap())),
        "easing-tables" => println!("{}", laws::easing_tables(&args[2])),
        "drive-easing" => println!("{}", laws::drive_easing(&args[2])),
        "drive-lerp" => println!("{}", laws::drive_lerp(args[2].parse().unwrap(), args[3] == "full", &args[4])),
        "drive-anim" => println!("{}", anim::drive_anim(args[2].parse().unwrap(), args[3].parse().unwrap(), args[4].parse().unwrap(), &args[5])),
        "judge-anim" => println!("{}", anim::judge_anim(&args[2], &args[3])),
        "drive-ts" => {
            // drive-ts <seed> <configs> <out.ndjson>
            let r = ts::drive_ts(args[2].parse().unwrap(), args[3].parse().unwrap(), &args[4]);
            println!("{}", r);
        }
        _ => { eprintln!("usage: harness <replay-tl file [scales]>"); std::process::exit(2); }
    }
}
