mod common;
mod anim;
mod extreme;
mod laws;
mod obj;
mod tl;
mod ts;
use serde_json::Value;
use std::io::{BufRead, BufReader};

/// Reads REPLAY lines as printed by TLC (`<<"REPLAY", "<json>">>`) or plain JSON lines.
pub fn read_lines(path: &str) -> Vec<Value> {
    let f = std::fs::File::open(path).expect("open input");
    let mut out = vec![];
    for l in BufReader::new(f).lines() {
        let l = l.unwrap();
        let l = l.trim();
        if let Some(rest) = l.strip_prefix("<<\"REPLAY\", ") {
            let q = rest.strip_suffix(">>").expect("REPLAY suffix");
            let inner: String = serde_json::from_str(q).expect("TLC string literal");
            out.push(serde_json::from_str(&inner).expect("inner json"));
        } else if l.starts_with('{') {
            out.push(serde_json::from_str(l).expect("json line"));
        }
    }
    out
}

fn main() {
    std::panic::set_hook(Box::new(|_| {}));
    let args: Vec<String> = std::env::args().collect();
    let cmd = args.get(1).map(|s| s.as_str()).unwrap_or("");
    match cmd {
        "replay-tl" => {
            let lines = read_lines(&args[2]);
            let scales: Vec<i64> = args.get(3).map(|s| s.split(',').map(|x| x.parse().unwrap()).collect()).unwrap_or(vec![-3, 0, 6]);
            let mut tally = tl::Tally::new();
            for (i, l) in lines.iter().enumerate() { tl::replay_tl_line(&mut tally, i + 1, l, &scales); }
            println!("{}", tally.report());
        }
        "replay-anim" => {
            let lines = read_lines(&args[2]);
            let scales: Vec<i64> = args.get(3).map(|s| s.split(',').map(|x| x.parse().unwrap()).collect()).unwrap_or(vec![-3, 0, 3]);
            let mut tally = tl::Tally::new();
            for (i, l) in lines.iter().enumerate() { anim::replay_anim_line(&mut tally, i + 1, l, &scales); }
            println!("{}", tally.report());
        }
        "replay-obj" => {
            let lines = read_lines(&args[2]);
            let scales: Vec<i64> = args.get(3).map(|s| s.split(',').map(|x| x.parse().unwrap()).collect()).unwrap_or(vec![-3, 0, 5]);
            let mut tally = tl::Tally::new();
            for (i, l) in lines.iter().enumerate() { obj::replay_obj_line(&mut tally, i + 1, l, &scales); }
            println!("{}", tally.report());
        }
        "drive-extreme" => println!("{}", extreme::drive_extreme(args[2].parse().unwrap(), args[3].parse().unwrap())),
        "easing-tables" => println!("{}", laws::easing_tables(&args[2])),
        "drive-easing" => println!("{}", laws::drive_easing(&args[2])),
        "drive-lerp" => println!("{}", laws::drive_lerp(args[2].parse().unwrap(), args[3] == "full", &args[4])),
        "drive-ts" => {
            // drive-ts <seed> <configs> <out.ndjson>
            let r = ts::drive_ts(args[2].parse().unwrap(), args[3].parse().unwrap(), &args[4]);
            println!("{}", r);
        }
        _ => { eprintln!("usage: harness <replay-tl file [scales]>"); std::process::exit(2); }
    }
}
