//! Leg B for the time mapping: drive the real TimeScale / timeline at exactly representable
//! integer-tick times (incl. the f32 neighbours of every phase boundary) and log what it does.
use crate::common::*;
use mina::prelude::*;
use mina_core::time_scale::{TimeScale, TimeScalePosition};
use serde_json::json;
use std::io::Write;

pub struct Rng(pub u64);
impl Rng {
    pub fn next(&mut self) -> u64 { self.0 ^= self.0 << 13; self.0 ^= self.0 >> 7; self.0 ^= self.0 << 17; self.0 }
    pub fn below(&mut self, n: u64) -> u64 { self.next() % n }
    pub fn pick<T: Copy>(&mut self, xs: &[T]) -> T { xs[self.below(xs.len() as u64) as usize] }
}

/// largest f32-representable integer <= v (v < 2^31), and smallest >= v
fn f32_floor(v: i64) -> i64 { let f = v as f32; let mut r = f as i64; if r > v { r = f32::from_bits(f.to_bits() - 1) as i64; } r }
fn f32_ceil(v: i64) -> i64 { let f = v as f32; let mut r = f as i64; if r < v { r = f32::from_bits(f.to_bits() + 1) as i64; } r }
fn f32_next(v: i64) -> i64 { f32::from_bits((v as f32).to_bits() + 1) as i64 }
fn f32_prev(v: i64) -> i64 { if v <= 0 { 0 } else { f32::from_bits((v as f32).to_bits() - 1) as i64 } }

pub fn drive_ts(seed: u64, nconf: usize, out: &str) -> serde_json::Value {
    let mut rng = Rng(seed.wrapping_mul(0x9E3779B97F4A7C15) | 1);
    let mut f = std::io::BufWriter::new(std::fs::File::create(out).unwrap());
    let (mut events, mut boundary_pts, mut configs) = (0u64, 0u64, 0u64);
    let mut sample = vec![];
    for ci in 0..nconf {
        // cycle: a full 24-bit mantissa (not a power of two, usually odd), or a small / dyadic one
        let cyc: i64 = match ci % 4 { 0 => (1 << 23) + rng.below(1 << 23) as i64, 1 => 1 + rng.below(4000) as i64,
                                       2 => 1 << (1 + rng.below(22)), _ => (1 << 16) + rng.below(1 << 20) as i64 };
        let del: i64 = match rng.below(6) { 0 | 1 => 0, 2 => -64 * rng.below(1 << 10) as i64, _ => 64 * rng.below(1 << 17) as i64 };   // also negative delays
        let mut rep: i64 = match rng.below(7) { 0 => -1, 1 => -2, 2 => 0, 3 => 1, 4 => -3, _ => 2 + rng.below(30) as i64 };
        // keep delay + cycle * (repeats + 2) inside the exactly representable range
        while rep > 0 && del + cyc * (rep + 3) >= (1 << 29) { rep /= 2; }
        if (rep == 0 || rep == -1) && del + cyc * 3 >= (1 << 29) { rep = -2; }
        let rev = rng.below(2) == 1;
        let e: i32 = rng.pick(&[-27, -20, -9, 0, 7]);
        let tick = (2.0f64).powi(e) as f32;
        let limit: i64 = 1 << 29;
        let ncyc = if rep == -2 || rep == -3 { 40 } else { rep.max(0) + 1 };
        if del + cyc * (ncyc + 1) >= limit && cyc > 4000 { /* keep boundaries inside the exact range */ }
        let ts = TimeScale::new(cyc as f32 * tick, del as f32 * tick, repeat_of(rep), rev);
        let probe = P4::timeline().duration_seconds(cyc as f32 * tick).delay_seconds(del as f32 * tick)
            .repeat(repeat_of(rep)).reverse(rev)
            .keyframe(P4::keyframe(0.0).x(0.0)).keyframe(P4::keyframe(1.0).x(1048576.0)).build();
        // the same probe with a substituted start value: tells whether the first forward pass is in effect
        let mut probe_ov = probe.clone();
        probe_ov.start_with(&P4 { x: 524288.0, ..P4::default() });
        writeln!(f, "{}", json!({"ev":"cfg","cyc":cyc,"del":del,"rep":rep,"rev":rev,"e":e})).unwrap();
        configs += 1;
        let exp_total = if rep == -2 { f32::INFINITY } else if rep == -3 { del as f32 * tick + cyc as f32 * tick * 4294967296.0f32 }
            else { del as f32 * tick + cyc as f32 * tick * ncyc as f32 };
        // (a panic while querying the metadata is an observation too: total_ok = false)
        let total_ok = std::panic::catch_unwind(std::panic::AssertUnwindSafe(|| {
            (probe.duration() == exp_total || (probe.duration() - exp_total).abs() <= exp_total.abs() * 2.4e-7)
                && probe.delay() == del as f32 * tick && probe.cycle_duration() == Some(cyc as f32 * tick) && probe.repeat() == repeat_of(rep)
        })).unwrap_or(false);
        // times: neighbourhoods of every boundary, half-cycle points, and random times
        let mut times: Vec<i64> = vec![0, 1, del, del + 1];
        if del > 0 { times.push(f32_prev(del)); times.push(f32_next(del)); }
        for k in 0..=(ncyc + 1).min(70) {
            for b in [del + k * cyc, del + k * cyc + cyc / 2, del + k * cyc + (cyc + 1) / 2] {
                if b >= limit { continue; }
                let (lo, hi) = (f32_floor(b), f32_ceil(b));
                for t in [f32_prev(lo), lo, hi, f32_next(hi)] { times.push(t); boundary_pts += 1; }
            }
        }
        for _ in 0..12 { let hi = (del + cyc * (ncyc + 2)).min(limit - 1); times.push(f32_floor(rng.below(hi as u64 + 1) as i64)); }
        times.sort(); times.dedup();
        for &t in &times {
            if t < 0 || t >= limit { continue; }
            // exactness preconditions: t and t - del representable
            if (t as f32) as i64 != t || del > t && false { continue; }
            let d = t - del; if d >= 0 && (d as f32) as i64 != d { continue; }
            let secs = t as f32 * tick;
            // a panic in the code under test is an observation, not a harness failure (C20)
            let r = std::panic::catch_unwind(std::panic::AssertUnwindSafe(|| {
                let (k, rp, rv, pos) = match ts.get_position(secs) {
                    TimeScalePosition::NotStarted => (0, 0, 0, 0.0f32),
                    TimeScalePosition::Active(p, ls) => (1, ls.is_repeating as i32, ls.is_reversing as i32, p),
                    TimeScalePosition::Ended(p) => (2, 0, 0, p),
                };
                let mut target = P4::default();
                probe.update(&mut target, secs);
                let mut target_ov = P4::default();
                probe_ov.update(&mut target_ov, secs);
                (k, rp, rv, pos, target.x, target_ov.x)
            }));
            let rec = match r {
                Ok((k, rp, rv, pos, x, xo)) => json!({"ev":"pos","t":t,"k":k,"rp":rp,"rv":rv,"q":(pos as f64 * 1048576.0).round() as i64,
                                                       "x": (x as f64).round() as i64, "xo": (xo as f64).round() as i64, "total_ok": total_ok as i32}),
                Err(_) => json!({"ev":"pos","t":t,"k":-1,"rp":0,"rv":0,"q":-1,"x":-1,"xo":-1,"total_ok":1,"panic":1}),
            };
            if sample.len() < 3 { sample.push(json!({"cfg":{"cyc":cyc,"del":del,"rep":rep,"rev":rev,"tick_log2":e},"obs":rec.clone()})); }
            writeln!(f, "{}", rec).unwrap();
            events += 1;
        }
    }
    f.flush().unwrap();
    json!({"configs": configs, "events": events, "boundary_points": boundary_pts, "samples": sample})
}
