//! C20 supplementary sweep (not spec-decided): arbitrary finite f32 durations / delays / times and
//! boundary repeat counts; oracle = no panic, finite outputs, values inside the keyframe envelope,
//! and (via the digest) identical observations in debug and release builds.
use crate::anim::{st, S4};
use crate::common::*;
use crate::ts::Rng;
use mina::prelude::*;
use mina_core::time_scale::{TimeScale, TimeScalePosition};
use serde_json::{json, Value};
use std::panic::{catch_unwind, AssertUnwindSafe};

fn finite_pos_f32(rng: &mut Rng) -> f32 {
    loop {
        let v = match rng.below(4) {
            0 => f32::from_bits((rng.next() as u32) & 0x7fff_ffff),                 // any non-negative bit pattern
            1 => (2.0f64).powi(rng.below(60) as i32 - 30) as f32 * (1 + rng.below(7)) as f32,
            2 => [f32::MIN_POSITIVE, 1.0e-45, 1.0e-20, 1.0e20, 3.0e38, 16777216.0, 16777218.0, 0.1, 0.3, 1.0 / 3.0][rng.below(10) as usize],
            _ => rng.below(1000) as f32 / 8.0,
        };
        if v.is_finite() && v >= 0.0 { return v; }
    }
}

pub fn drive_extreme(seed: u64, n: usize) -> Value {
    let mut rng = Rng(seed.wrapping_mul(0x9E3779B97F4A7C15) | 1);
    let reps: [u32; 9] = [0, 1, 2, 7, (1 << 24) + 1, 1 << 31, u32::MAX - 1, u32::MAX, 1000];
    let mut digest: u64 = 0xcbf29ce484222325;
    let mut mix = |x: u64| { digest ^= x; digest = digest.wrapping_mul(0x100000001b3); };
    let (mut evals, mut configs) = (0u64, 0u64);
    let mut bad: Vec<Value> = vec![];
    for _ in 0..n {
        let mut dur = finite_pos_f32(&mut rng);
        if dur == 0.0 { dur = 1.0; }
        let del = if rng.below(3) == 0 { 0.0 } else { finite_pos_f32(&mut rng) };
        let rep = match rng.below(4) { 0 => Repeat::None, 1 => Repeat::Infinite, _ => Repeat::Times(reps[rng.below(9) as usize]) };
        let rev = rng.below(2) == 0;
        // domain: the exact total must be representable (finite) in f32
        let cycles = match rep { Repeat::None => 1.0f64, Repeat::Times(k) => k as f64 + 1.0, Repeat::Infinite => 1.0 };
        if del as f64 + dur as f64 * cycles > 3.0e38 { continue; }
        configs += 1;
        let cfg = json!({"dur_bits": dur.to_bits(), "del_bits": del.to_bits(), "rep": format!("{:?}", rep), "rev": rev});
        let r = catch_unwind(AssertUnwindSafe(|| {
            let mut out: Vec<u64> = vec![];
            let mut issues: Vec<Value> = vec![];
            let ts = TimeScale::new(dur, del, rep, rev);
            // keyframes are added in a random order (the result must not depend on it)
            let perm: [usize; 3] = [[0, 1, 2], [0, 2, 1], [1, 0, 2], [1, 2, 0], [2, 0, 1], [2, 1, 0]][rng.below(6) as usize];
            let add3 = |b: TimelineConfiguration<P4KeyframeData>, ks: [P4KeyframeBuilder; 3]| -> P4Timeline {
                let mut ks: Vec<Option<P4KeyframeBuilder>> = ks.into_iter().map(Some).collect();
                let mut b = b;
                for i in perm { b = b.keyframe(ks[i].take().unwrap()); }
                b.build()
            };
            let tl = add3(P4::timeline().duration_seconds(dur).delay_seconds(del).repeat(rep).reverse(rev)
                .default_easing(easing([1, 2, 14, 22, 38][rng.below(5) as usize])),
                [P4::keyframe(0.0).x(-4.0).n(-100), P4::keyframe(0.5).x(12.0).m(300), P4::keyframe(1.0).x(2.0).n(100).m(-300)]);
            // extreme but finite VALUES: opposite-sign keyframes whose difference exceeds f32::MAX
            let big = add3(P4::timeline().duration_seconds(dur).delay_seconds(del).repeat(rep).reverse(rev),
                [P4::keyframe(0.0).x(-3.0e38).y(3.0e38), P4::keyframe(0.5).x(3.0e38).y(-2.0e38), P4::keyframe(1.0).x(-1.0e38)]);
            // integer properties spanning their whole type (the limits that are f32 numbers)
            let lim = add3(P4::timeline().duration_seconds(dur).delay_seconds(del).repeat(rep).reverse(rev),
                [P4::keyframe(0.0).n(i32::MIN).m(i16::MIN), P4::keyframe(0.5).m(i16::MAX), P4::keyframe(1.0).n(2147483520).m(i16::MIN)]);
            let total = tl.duration();
            if rep != Repeat::Infinite && !total.is_finite() { issues.push(json!({"what": "duration() not finite", "total": total.to_string()})); }
            if tl.delay() != del || tl.cycle_duration() != Some(dur) || tl.repeat() != rep { issues.push(json!({"what": "metadata differs from configuration"})); }
            out.push(total.to_bits() as u64);
            let mut times: Vec<f32> = vec![0.0, del, dur, del + dur, f32::MAX, 1.0e30];
            for base in [del, del + dur, del + dur * 0.5, total] {
                if base.is_finite() { times.push(base); times.push(f32::from_bits(base.to_bits().wrapping_add(1))); if base > 0.0 { times.push(f32::from_bits(base.to_bits() - 1)); } }
            }
            for _ in 0..6 { times.push(finite_pos_f32(&mut rng)); }
            for t in times {
                if !t.is_finite() || t < 0.0 { continue; }
                let p = match ts.get_position(t) { TimeScalePosition::NotStarted => 0.0, TimeScalePosition::Active(p, _) => p, TimeScalePosition::Ended(p) => p };
                if !(p >= 0.0 && p <= 1.0) { issues.push(json!({"what": "position outside [0,1] or NaN", "t_bits": t.to_bits(), "pos": p.to_string()})); }
                let mut v = P4::default();
                tl.update(&mut v, t);
                // Lin/Sq stay inside the envelope; overshooting built-ins (Back) get slack
                if !(v.x.is_finite() && v.x >= -16.0 && v.x <= 24.0 && v.y == 0.0) { issues.push(json!({"what": "value not finite / outside the keyframe envelope", "t_bits": t.to_bits(), "x": v.x.to_string()})); }
                let mut w = P4::default();
                big.update(&mut w, t);
                if !(w.x.is_finite() && w.y.is_finite() && w.x.abs() <= 3.0e38 && w.y.abs() <= 3.0e38) { issues.push(json!({"what": "finite extreme values became non-finite / left their range", "t_bits": t.to_bits(), "x": w.x.to_string(), "y": w.y.to_string()})); }
                let mut u = P4::default();
                lim.update(&mut u, t);
                out.push(p.to_bits() as u64); out.push(v.x.to_bits() as u64); out.push(v.n as u64 ^ ((u.n as u64) << 20)); out.push(v.m as u64 ^ ((u.m as u64) << 20));
            }
            (out, issues)
        }));
        match r {
            Ok((out, issues)) => { evals += out.len() as u64 / 4; for o in out { mix(o); } for i in issues { if bad.len() < 10 { bad.push(json!({"cfg": cfg, "issue": i})); } else { bad.push(Value::Null); } } }
            Err(e) => { let msg = e.downcast_ref::<String>().cloned().or_else(|| e.downcast_ref::<&str>().map(|s| s.to_string())).unwrap_or_default();
                        mix(0xdead); bad.push(json!({"cfg": cfg, "issue": {"what": "panic", "panic": msg}})); }
        }
    }
    // animator: large but valid advances
    let mut anim_issues = vec![];
    for big in [1.0e6f32, 1.0e9, 1.6e19, 1.0e20, 3.0e38] {
        let r = catch_unwind(AssertUnwindSafe(|| {
            let mut a = StateAnimatorBuilder::new().from_state(S4::S1)
                .on(S4::S1, P4::timeline().duration_seconds(2.0).repeat(Repeat::Times(u32::MAX)).keyframe(P4::keyframe(1.0).x(8.0)))
                .on(st(2), P4::timeline().duration_seconds(1.0e30).keyframe(P4::keyframe(1.0).x(8.0))).build();
            a.advance(big); a.advance(big); a.set_state(&S4::S2); a.advance(big); a.advance(0.0);
            (a.current_values().x, a.is_ended())
        }));
        match r { Ok((x, e)) => { mix(x.to_bits() as u64); mix(e as u64); if !x.is_finite() { anim_issues.push(json!({"advance": big.to_string(), "what": "non-finite value"})); } }
                  Err(e) => { mix(0xbeef); let msg = e.downcast_ref::<String>().cloned().or_else(|| e.downcast_ref::<&str>().map(|s| s.to_string())).unwrap_or_default();
                              anim_issues.push(json!({"advance": big.to_string(), "what": "panic", "panic": msg})); } }
    }
    for huge in [1.0e19f32, 2.0e19, 3.0e38, f32::MAX] {
        let r = catch_unwind(AssertUnwindSafe(|| {
            let mut a = StateAnimatorBuilder::new().from_state(S4::S1)
                .on(S4::S1, P4::timeline().duration_seconds(2.0).keyframe(P4::keyframe(1.0).x(8.0))).build();
            a.advance(0.5); a.advance(huge);
            (a.current_values().x, a.is_ended())
        }));
        match r { Ok((x, e)) => { mix(x.to_bits() as u64); if x != 8.0 || !e { anim_issues.push(json!({"advance": format!("0.5 then {huge}"), "what": "a huge frame after some progress is lost: not ended / not at the terminal values", "x": x.to_string(), "ended": e})); } }
                  Err(_) => anim_issues.push(json!({"advance": format!("0.5 then {huge}"), "what": "panic"})) }
    }
    // an endless loop (alone, and as one part of a merged timeline) never reports completion, however large the advance
    let mut endless_issues = vec![];
    for big in [1.0e6f32, 1.6e19, 1.0e30, f32::MAX] {
        for merged in [false, true] {
            let r = catch_unwind(AssertUnwindSafe(|| {
                let looping = P4::timeline().duration_seconds(2.0).repeat(Repeat::Infinite).keyframe(P4::keyframe(1.0).x(8.0)).build();
                let once = P4::timeline().duration_seconds(1.0).keyframe(P4::keyframe(1.0).y(3.0)).build();
                let b = StateAnimatorBuilder::new().from_state(S4::S1);
                let mut a = if merged { b.on(S4::S1, MergedTimeline::of([once, looping])).build() } else { b.on(S4::S1, looping).build() };
                a.advance(0.5);
                let mut ended = a.is_ended();
                for _ in 0..3 { a.advance(big); ended |= a.is_ended(); }
                a.advance(0.0);
                (a.current_values().x, ended || a.is_ended())
            }));
            match r { Ok((x, e)) => { mix(x.to_bits() as u64); mix(e as u64);
                          if e || !x.is_finite() { endless_issues.push(json!({"advance": format!("0.5 then 3 x {big}"), "merged": merged, "what": "an endlessly repeating animation reported completion (or a non-finite value)", "x": x.to_string(), "ended": e})); } }
                      Err(e) => { mix(0xfeed); let msg = e.downcast_ref::<String>().cloned().or_else(|| e.downcast_ref::<&str>().map(|s| s.to_string())).unwrap_or_default();
                                  endless_issues.push(json!({"advance": big.to_string(), "merged": merged, "what": "panic", "panic": msg})); } }
        }
    }
    let nbad = bad.len();
    bad.retain(|b| !b.is_null());
    json!({"configs": configs, "evaluations": evals, "digest": format!("{:016x}", digest), "issues": nbad, "first": bad, "animator_issues": anim_issues, "endless_issues": endless_issues})
}
