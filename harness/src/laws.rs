//! C13 (easing) and C14 (lerp): tables from the spec evaluated on the real functions (leg A) and
//! dense logs of the real functions for TLC to validate (leg B).
use crate::common::*;
use crate::ts::Rng;

use mina::prelude::Easing;
use mina_core::easing::EasingFunction;
use mina_core::interpolation::Lerp;
use serde_json::{json, Value};
use std::io::Write;
use std::panic::{catch_unwind, AssertUnwindSafe};

fn q20(v: f32) -> i64 { (v as f64 * 1048576.0).round() as i64 }

/// Leg A: per easing, compare the real calc with the spec's exact tables.
/// D: calc(Bx/den) vs By/den (the definition); I: calc(k/N) vs By/den (parameter-as-x, as found).
pub fn easing_tables(path: &str) -> Value {
    let mut out = vec![];
    for line in crate::read_lines(path) {
        let id = line["id"].as_i64().unwrap();
        let den = line["den"].as_i64().unwrap() as f64;
        let n = line["n"].as_i64().unwrap();
        let e = easing(id);
        let (mut err_d, mut err_i) = (0.0f64, 0.0f64);
        let (mut worst_d, mut worst_i) = (json!(null), json!(null));
        for k in 0..=n as usize {
            let (bx, by) = (line["bx"][k].as_i64().unwrap() as f64 / den, line["by"][k].as_i64().unwrap() as f64 / den);
            let d = (e.calc(bx as f32) as f64 - by).abs();
            if d > err_d { err_d = d; worst_d = json!({"x": bx, "definition": by, "calc": e.calc(bx as f32)}); }
            let xi = k as f64 / n as f64;
            let i = (e.calc(xi as f32) as f64 - by).abs();
            if i > err_i { err_i = i; worst_i = json!({"x": xi, "curve_y_at_t_eq_x": by, "calc": e.calc(xi as f32)}); }
        }
        // the as-found evaluation (curve y at parameter t = x) also on a dense set incl. the immediate
        // neighbourhoods of 0 and 1, with the polynomial evaluated from the SPEC's control points
        let cp: Vec<f64> = line["cp"].as_array().unwrap().iter().map(|v| v.as_i64().unwrap() as f64 / 100.0).collect();
        let by = |t: f64| if id == 10 { t } else { 3.0 * (1.0 - t) * (1.0 - t) * t * cp[1] + 3.0 * (1.0 - t) * t * t * cp[3] + t * t * t };
        let mut xs: Vec<f32> = (0..=4096).map(|j| j as f32 / 4096.0).collect();
        for k in 1..=30 { xs.push((2.0f32).powi(-k)); xs.push(1.0 - (2.0f32).powi(-k)); xs.push(3.0 * (2.0f32).powi(-k)); }
        for &x in &xs {
            if !(0.0..=1.0).contains(&x) { continue; }
            let i = (e.calc(x) as f64 - by(x as f64)).abs();
            if i > err_i { err_i = i; worst_i = json!({"x": x, "curve_y_at_t_eq_x": by(x as f64), "calc": e.calc(x)}); }
        }
        let class = if err_d <= 2e-4 { "definition" } else if err_i <= 2e-5 { "param-as-x" } else { "other" };
        out.push(json!({"id": id, "easing": BUILTIN_NAMES[(id - 10) as usize], "class": class, "max_err_definition": err_d, "max_err_param": err_i,
                        "worst_definition": worst_d, "worst_param": worst_i, "points": n + 1}));
    }
    // a custom easing is used as given (bit for bit), including outputs outside [0,1]
    let mut custom_bad = vec![];
    let mut custom_checked = 0u64;
    for (id, f) in [(2i64, Box::new(Sq) as Box<dyn EasingFunction>), (3, Box::new(OutSq)), (4, Box::new(Over)), (5, Box::new(Under))] {
        let e = easing(id);
        for j in 0..=2048 { let x = j as f32 / 2048.0; custom_checked += 1;
            if e.calc(x).to_bits() != f.calc(x).to_bits() && custom_bad.len() < 5 { custom_bad.push(json!({"custom": id, "x": x, "given": f.calc(x), "used": e.calc(x)})); } }
    }
    // different custom easings evaluated back to back at the same x must not influence each other
    let customs: Vec<(i64, Easing, Box<dyn EasingFunction>)> = vec![(2, easing(2), Box::new(Sq)), (3, easing(3), Box::new(OutSq)), (4, easing(4), Box::new(Over)), (5, easing(5), Box::new(Under))];
    for j in 0..=512 { let x = j as f32 / 512.0;
        for (id, e, f) in &customs { custom_checked += 1;
            if e.calc(x).to_bits() != f.calc(x).to_bits() && custom_bad.len() < 5 { custom_bad.push(json!({"custom": id, "x": x, "given": f.calc(x), "used": e.calc(x), "order": "alternating"})); } } }
    // ... and inside a timeline: a default custom easing A, a keyframe carrying custom B and the next one custom C
    // (all of them zero-sized types): every segment is eased by exactly the easing in force there
    {
        use mina::prelude::*;
        let f64s = [2i64, 3, 4, 5];
        for &ia in &f64s { for &ib in &f64s { for &ic in &f64s {
            if ia == ib || ib == ic { continue; }
            let tl = P4::timeline().duration_seconds(4.0).default_easing(easing(ia))
                .keyframe(P4::keyframe(0.0).x(0.0).easing(easing(ib)))
                .keyframe(P4::keyframe(0.5).x(100.0).easing(easing(ic)))
                .keyframe(P4::keyframe(1.0).x(0.0).y(80.0)).build();
            for (t, frac_of, from, to, ie, pick_y) in [(0.5f32, 0.25f32, 0.0f32, 100.0f32, ib, false), (3.0, 0.5, 100.0, 0.0, ic, false), (1.0, 0.25, 0.0, 80.0, ia, true), (3.5, 0.875, 0.0, 80.0, ia, true)] {
                let mut v = SENT.clone();
                tl.update(&mut v, t);
                let want = mina_core::interpolation::Lerp::lerp(&from, &to, easing(ie).calc(frac_of));
                let got = if pick_y { v.y } else { v.x };
                custom_checked += 1;
                if got.to_bits() != want.to_bits() && custom_bad.len() < 5 {
                    custom_bad.push(json!({"timeline": {"default": ia, "first_keyframe": ib, "second_keyframe": ic}, "t": t, "segment_easing": ie, "got": got, "expected": want}));
                }
            }
        } } }
    }
    json!({"easings": out, "custom_checked": custom_checked, "custom_bad": custom_bad})
}

/// Leg B: dense sweep of every built-in easing, logged as integers for Trace_Easing.
pub fn drive_easing(out: &str) -> Value {
    let mut f = std::io::BufWriter::new(std::fs::File::create(out).unwrap());
    let mut evals = 0u64;
    for id in 10..39i64 {
        let e = easing(id);
        let q: Vec<i64> = (0..=1024).map(|j| q20(e.calc(j as f32 / 1024.0))).collect();
        let lo: Vec<i64> = (1..=24).map(|k| q20(e.calc((2.0f32).powi(-k)))).collect();
        let hi: Vec<i64> = (1..=24).map(|k| q20(e.calc(1.0 - (2.0f32).powi(-k)))).collect();
        // f32 neighbours of the end points
        let nb = [q20(e.calc(f32::from_bits(1))), q20(e.calc(f32::MIN_POSITIVE)), q20(e.calc(f32::from_bits(1.0f32.to_bits() - 1)))];
        evals += 1025 + 48 + 5;
        writeln!(f, "{}", json!({"ev": "ease", "id": id, "b0": e.calc(0.0).to_bits() as i64, "b1": e.calc(1.0).to_bits() as i64,
                                   "q": q, "lo": lo, "hi": hi, "nb": nb})).unwrap();
    }
    f.flush().unwrap();
    json!({"easings": 29, "evaluations": evals})
}

// ---------------------------------------------------------------------------------------------
fn lerp_rec<T: Lerp + Copy + std::fmt::Debug + 'static>(ty: &str, a: T, b: T, xs: &[(i64, i64)], to_i: impl Fn(T) -> Option<i64>, av: i64, bv: i64) -> Value {
    let mut r = vec![];
    let mut panicked = false;
    for &(n, d) in xs {
        let x = n as f32 / d as f32;
        match catch_unwind(AssertUnwindSafe(|| a.lerp(&b, x))) {
            Ok(v) => match to_i(v) { Some(i) => r.push(i), None => { panicked = true; break; } },
            Err(_) => { panicked = true; break; }
        }
    }
    if panicked { json!({"ev": "lerp", "ty": ty, "a": av, "b": bv, "panic": 1}) }
    else { json!({"ev": "lerp", "ty": ty, "a": av, "b": bv, "xs": xs.iter().map(|x| vec![x.0, x.1]).collect::<Vec<_>>(), "r": r}) }
}

/// Leg B for lerp.  Records are integer-only:
///  {"ev":"lerp","ty":..,"a":..,"b":..,"xs":[[n,d]..],"r":[results]}           integer types (exact values)
///  {"ev":"lerpf","ty":"f32"|"f64","a":..,"b":..,"xs":..,"r":[result*den]}     float types on dyadic x (exact)
///  {"ev":"lerps","ty":..,"ma":..,"mb":..,"s":..,"xs":..,"r":[result*den/2^s]}  scaled wide values
pub fn drive_lerp(seed: u64, full8: bool, out: &str) -> Value {
    let mut rng = Rng(seed.wrapping_mul(0x9E3779B97F4A7C15) | 1);
    let mut f = std::io::BufWriter::new(std::fs::File::create(out).unwrap());
    let xs16: Vec<(i64, i64)> = (0..=16).map(|k| (k, 16)).collect();
    // the f32 neighbours of 1/2 and of the end points, as exact rationals over 2^25
    let xs_edge: Vec<(i64, i64)> = vec![(0, 1), (1, 33554432), (16777215, 33554432), (16777216, 33554432), (16777218, 33554432), (33554430, 33554432), (1, 1)];
    let (mut recs, mut evals) = (0u64, 0u64);
    let put = |v: Value, f: &mut std::io::BufWriter<std::fs::File>| { writeln!(f, "{}", v).unwrap(); };
    // 8-bit types: all pairs (thorough) or boundary + random pairs (quick)
    let pick8 = |lo: i64, hi: i64, rng: &mut Rng| -> Vec<i64> {
        if full8 { (lo..=hi).collect() } else { let mut v = vec![lo, lo + 1, (-1i64).max(lo), 0i64.max(lo), 1, 2, hi / 2, hi - 1, hi]; for _ in 0..14 { v.push(lo + rng.below((hi - lo + 1) as u64) as i64); } v.sort(); v.dedup(); v }
    };
    let a8 = pick8(-128, 127, &mut rng);
    for &a in &a8 { for &b in &a8 {
        put(lerp_rec("i8", a as i8, b as i8, &xs16, |v| Some(v as i64), a, b), &mut f); recs += 1; evals += 17;
    } }
    let u8s = pick8(0, 255, &mut rng);
    for &a in &u8s { for &b in &u8s {
        put(lerp_rec("u8", a as u8, b as u8, &xs16, |v| Some(v as i64), a, b), &mut f); recs += 1; evals += 17;
    } }
    // small values at the f32 neighbours of 0, 1/2 and 1 (round-to-nearest exactly at the tie's neighbours)
    for a in [-3i64, -1, 0, 1, 2, 30, 100] { for b in [-2i64, 0, 1, 3, 29, 101] {
        put(lerp_rec("i8", a as i8, b as i8, &xs_edge, |v| Some(v as i64), a, b), &mut f);
        put(lerp_rec("i32", a as i32, b as i32, &xs_edge, |v| Some(v as i64), a, b), &mut f);
        if a >= 0 { put(lerp_rec("u8", a as u8, b.max(0) as u8, &xs_edge, |v| Some(v as i64), a, b.max(0)), &mut f); recs += 1; }
        recs += 2; evals += 21;
    } }
    // wider integer types: boundary, mixed-magnitude and full-24-bit-mantissa values (all < 2^31 here)
    let mut wide: Vec<i64> = vec![0, 1, -1, 2, 255, 256, 32767, -32768, 65535, 1 << 23, (1 << 23) + 1, (1 << 24) - 1, 1 << 24, 100_000_000, -100_000_000,
                                  8388609, 8388611, 16777215, -8388609, -16777215, 1 << 30, -(1 << 30), 1073741824 - 64];
    for _ in 0..30 { wide.push((1 << 23) + (rng.below(1 << 23) as i64 | 1)); wide.push(rng.below(100000) as i64 - 50000); }
    let xs4: Vec<(i64, i64)> = vec![(0, 1), (1, 4), (1, 2), (3, 4), (1, 1)];
    let npairs = if full8 { 6000 } else { 500 };
    for _ in 0..npairs {
        let (a, b) = (wide[rng.below(wide.len() as u64) as usize], wide[rng.below(wide.len() as u64) as usize]);
        let fits = |v: i64, lo: i64, hi: i64| v >= lo && v <= hi;
        if fits(a, -32768, 32767) && fits(b, -32768, 32767) { put(lerp_rec("i16", a as i16, b as i16, &xs4, |v| Some(v as i64), a, b), &mut f); recs += 1; }
        if fits(a, 0, 65535) && fits(b, 0, 65535) { put(lerp_rec("u16", a as u16, b as u16, &xs4, |v| Some(v as i64), a, b), &mut f); recs += 1; }
        put(lerp_rec("i32", a as i32, b as i32, &xs4, |v| Some(v as i64), a, b), &mut f);
        put(lerp_rec("i64", a, b, &xs4, |v| Some(v), a, b), &mut f);
        if a >= 0 && b >= 0 {
            put(lerp_rec("u32", a as u32, b as u32, &xs4, |v| Some(v as i64), a, b), &mut f);
            put(lerp_rec("u64", a as u64, b as u64, &xs4, |v| i64::try_from(v).ok(), a, b), &mut f);
            put(lerp_rec("usize", a as usize, b as usize, &xs4, |v| i64::try_from(v).ok(), a, b), &mut f);
            recs += 3;
        }
        recs += 2; evals += 5 * 7;
    }
    // values beyond 2^31 for the 64-bit types: mantissa * 2^s (exactly representable in f32)
    for _ in 0..(if full8 { 2000 } else { 200 }) {
        let (ma, mb, s) = (rng.below(4096) as i64, rng.below(4096) as i64, 20 + rng.below(33) as u32);   // up to 4095 * 2^52: beyond 2^63
        let sc = |m: i64| (m as u64) << s;
        let mut r = vec![]; let mut ok = true;
        for &(n, d) in &xs16 { match catch_unwind(AssertUnwindSafe(|| sc(ma).lerp(&sc(mb), n as f32 / d as f32))) { Ok(v) => r.push(((v as u128 * 16) >> s) as i64), Err(_) => { ok = false; break; } } }
        put(if ok { json!({"ev": "lerps", "ty": "u64", "ma": ma, "mb": mb, "s": s, "r": r}) } else { json!({"ev": "lerps", "ty": "u64", "ma": ma, "mb": mb, "s": s, "panic": 1}) }, &mut f);
        let (ia, ib) = (ma - 2048, mb - 2048);
        let sci = |m: i64| m << s.min(50);
        let mut r = vec![]; let mut ok = true;
        for &(n, d) in &xs16 { match catch_unwind(AssertUnwindSafe(|| sci(ia).lerp(&sci(ib), n as f32 / d as f32))) { Ok(v) => r.push(((v as i128 * 16) >> s.min(50)) as i64), Err(_) => { ok = false; break; } } }
        put(if ok { json!({"ev": "lerps", "ty": "i64", "ma": ia, "mb": ib, "s": s.min(50), "r": r}) } else { json!({"ev": "lerps", "ty": "i64", "ma": ia, "mb": ib, "s": s.min(50), "panic": 1}) }, &mut f);
        recs += 2; evals += 34;
    }
    // the limits of every wide type that are f32 numbers (i32::MIN, i64::MIN = -2048 * 2^52, 4095 * 2^20 just below
    // u32::MAX, ...): all pairs of boundary mantissas, x = k/16; exact, and never a panic
    macro_rules! boundary_scaled { ($t:ty, $name:expr, $s:expr, $ms:expr) => {
        for &ma in $ms.iter() { for &mb in $ms.iter() {
            let sc = |m: i64| ((m as i128) << $s) as $t;
            let mut r = vec![]; let mut ok = true;
            for &(n, d) in &xs16 { match catch_unwind(AssertUnwindSafe(|| sc(ma).lerp(&sc(mb), n as f32 / d as f32))) { Ok(v) => r.push(((v as i128 * 16) >> $s) as i64), Err(_) => { ok = false; break; } } }
            put(if ok { json!({"ev": "lerps", "ty": $name, "ma": ma, "mb": mb, "s": $s, "r": r}) } else { json!({"ev": "lerps", "ty": $name, "ma": ma, "mb": mb, "s": $s, "panic": 1}) }, &mut f);
            recs += 1; evals += 17;
        } }
    } }
    let signed_ms: [i64; 7] = [-2048, -2047, -1, 0, 1, 2046, 2047];
    let unsigned_ms: [i64; 6] = [0, 1, 2, 2048, 4094, 4095];
    boundary_scaled!(i32, "i32", 20, signed_ms);
    boundary_scaled!(i64, "i64", 52, signed_ms);
    boundary_scaled!(u32, "u32", 20, unsigned_ms);
    boundary_scaled!(u64, "u64", 52, unsigned_ms);
    // wide ranges at the f32 neighbours of x = 0 and x = 1: a = ma * 2^24, b = mb * 2^24, x = n / 2^24 (raw results)
    let ns: Vec<i64> = vec![0, 1, 2, 3, 1 << 23, (1 << 24) - 3, (1 << 24) - 2, (1 << 24) - 1, 1 << 24];
    macro_rules! wide_edge { ($t:ty, $name:expr) => {
        for &ma in [0i64, 1, 2, 3, 100, 127].iter() { for &mb in [0i64, 1, 2, 3, 100, 127].iter() {
            let (a, b) = ((ma << 24) as $t, (mb << 24) as $t);
            let mut r = vec![]; let mut ok = true;
            for &n in &ns { match catch_unwind(AssertUnwindSafe(|| a.lerp(&b, n as f32 / 16777216.0))) { Ok(v) => r.push(v as i64), Err(_) => { ok = false; break; } } }
            put(if ok { json!({"ev": "lerpw", "ty": $name, "ma": ma, "mb": mb, "ns": ns, "r": r}) } else { json!({"ev": "lerpw", "ty": $name, "ma": ma, "mb": mb, "panic": 1}) }, &mut f);
            recs += 1; evals += ns.len() as u64;
        } }
    } }
    wide_edge!(i32, "i32"); wide_edge!(u32, "u32"); wide_edge!(i64, "i64"); wide_edge!(u64, "u64"); wide_edge!(usize, "usize");
    // lerp(a, a, x) = a at positions whose complement 1 - x is NOT an f32 number and at every magnitude up to the
    // type limits (x logged as the exact rational n / 2^30 of the f32)
    let xs_aa: Vec<f32> = vec![0.252, 0.058, 1.0 / 3.0, 0.7, 0.9900865, 0.014638841, 0.1, 8.940697e-8, 0.5000001];
    let xs_aa_q: Vec<i64> = xs_aa.iter().map(|&x| (x as f64 * 1073741824.0).round() as i64).collect();
    let mut aas: Vec<i64> = vec![0, 1, -1, 3, 255, -32768, 65535, 1 << 20, (1 << 22) - 1, (1 << 22) + 1, (1 << 23) - 1, 8388609, 8541079, 16777215, -16777215, -8388607,
                                 1 << 24, (1 << 24) + 2, 100_000_000, 1 << 30, -(1 << 31), 2147483520];
    for _ in 0..(if full8 { 400 } else { 60 }) { aas.push(rng.below(1 << 22) as i64 - (1 << 21)); aas.push((1 << 22) + rng.below((1 << 24) - (1 << 22)) as i64); }
    for &a in &aas {
        if a as f32 as i64 != a { continue; }            // (the law is about values that are f32 numbers)
        let fits = |lo: i64, hi: i64| a >= lo && a <= hi;
        let mut rec = |ty: &str, r: Option<Vec<i64>>, f: &mut std::io::BufWriter<std::fs::File>| {
            put(match r { Some(r) => json!({"ev": "lerpaa", "ty": ty, "a": a, "xq": xs_aa_q, "r": r}), None => json!({"ev": "lerpaa", "ty": ty, "a": a, "panic": 1}) }, f);
        };
        macro_rules! aa { ($t:ty, $name:expr) => {{
            let v = a as $t;
            let r: Option<Vec<i64>> = xs_aa.iter().map(|&x| catch_unwind(AssertUnwindSafe(|| v.lerp(&v, x))).ok().map(|r| r as i64)).collect();
            rec($name, r, &mut f); recs += 1; evals += xs_aa.len() as u64;
        }} }
        if fits(-32768, 32767) { aa!(i16, "i16"); }
        if fits(0, 65535) { aa!(u16, "u16"); }
        if fits(-(1 << 31), (1 << 31) - 1) { aa!(i32, "i32"); }
        if fits(0, (1 << 32) - 1) { aa!(u32, "u32"); aa!(u64, "u64"); aa!(usize, "usize"); }
        aa!(i64, "i64");
    }
    // float types on small integers and dyadic x: exact
    for _ in 0..(if full8 { 4000 } else { 400 }) {
        let (mut a, mut b) = (rng.below(8192) as i64 - 4096, rng.below(8192) as i64 - 4096);
        match rng.below(12) { 0 => { a = 0; b = 0; } 1 => { a = 0; } 2 => { b = 0; } 3 => { b = a; } _ => {} }
        let fin = |v: f64| if v.is_finite() { (v * 16.0) as i64 } else { -2147483647 };      // NaN / infinity must not look like 0
        let r32: Vec<i64> = xs16.iter().map(|&(n, d)| fin((a as f32).lerp(&(b as f32), n as f32 / d as f32) as f64)).collect();
        let r64: Vec<i64> = xs16.iter().map(|&(n, d)| fin((a as f64).lerp(&(b as f64), n as f32 / d as f32))).collect();
        put(json!({"ev": "lerpf", "ty": "f32", "a": a, "b": b, "r": r32}), &mut f);
        put(json!({"ev": "lerpf", "ty": "f64", "a": a, "b": b, "r": r64}), &mut f);
        recs += 2; evals += 34;
    }
    // float laws that need float comparison (to 2 ulp) are judged here and reported as one record
    let mut float_bad = 0u64; let mut float_checked = 0u64;
    for _ in 0..(if full8 { 400000 } else { 40000 }) {
        let a = f32::from_bits((rng.next() as u32 & 0x3fff_ffff) | ((rng.below(2) as u32) << 31)).clamp(-1.0e18, 1.0e18);
        let b = if rng.below(4) == 0 { a } else { f32::from_bits((rng.next() as u32 & 0x3fff_ffff) | ((rng.below(2) as u32) << 31)).clamp(-1.0e18, 1.0e18) };
        let x = rng.below(1 << 24) as f32 / (1 << 24) as f32;
        let v = a.lerp(&b, x);
        let (lo, hi) = (a.min(b), a.max(b));
        let ulp = |z: f32| (z.abs().max(f32::MIN_POSITIVE)) * 2.4e-7;
        float_checked += 1;
        if !(v >= lo - ulp(lo) && v <= hi + ulp(hi)) || a.lerp(&b, 0.0) != a || a.lerp(&b, 1.0) != b || (a == b && (v - a).abs() > ulp(a)) { float_bad += 1; }
        let (da, db) = (a as f64, b as f64);
        let dv = da.lerp(&db, x);
        let exact = da * (1.0 - x as f64) + db * x as f64;
        if (dv - exact).abs() > 4.0 * (da.abs().max(db.abs()).max(1e-30)) * 1.2e-7 { float_bad += 1; }
    }
    // glam: component-wise
    let (mut glam_checked, mut glam_bad) = (0u64, 0u64);
    {
        use glam::*;
        for _ in 0..(if full8 { 20000 } else { 2000 }) {
            let g = |rng: &mut Rng| rng.below(2001) as f32 - 1000.0;
            let (a, b) = ([g(&mut rng), g(&mut rng), g(&mut rng), g(&mut rng)], [g(&mut rng), g(&mut rng), g(&mut rng), g(&mut rng)]);
            let x = rng.below(257) as f32 / 256.0;
            let s: Vec<f32> = (0..4).map(|i| a[i].lerp(&b[i], x)).collect();
            let si: Vec<i32> = (0..4).map(|i| (a[i] as i32).lerp(&(b[i] as i32), x)).collect();
            let su: Vec<u32> = (0..4).map(|i| (a[i].abs() as u32).lerp(&(b[i].abs() as u32), x)).collect();
            let sd: Vec<f64> = (0..4).map(|i| (a[i] as f64).lerp(&(b[i] as f64), x)).collect();
            let mut ok = true;
            ok &= Lerp::lerp(&Vec2::new(a[0], a[1]), &Vec2::new(b[0], b[1]), x) == Vec2::new(s[0], s[1]);
            ok &= Lerp::lerp(&Vec3::new(a[0], a[1], a[2]), &Vec3::new(b[0], b[1], b[2]), x) == Vec3::new(s[0], s[1], s[2]);
            ok &= Lerp::lerp(&Vec3A::new(a[0], a[1], a[2]), &Vec3A::new(b[0], b[1], b[2]), x) == Vec3A::new(s[0], s[1], s[2]);
            ok &= Lerp::lerp(&Vec4::new(a[0], a[1], a[2], a[3]), &Vec4::new(b[0], b[1], b[2], b[3]), x) == Vec4::new(s[0], s[1], s[2], s[3]);
            ok &= Lerp::lerp(&DVec2::new(a[0] as f64, a[1] as f64), &DVec2::new(b[0] as f64, b[1] as f64), x) == DVec2::new(sd[0], sd[1]);
            ok &= Lerp::lerp(&DVec3::new(a[0] as f64, a[1] as f64, a[2] as f64), &DVec3::new(b[0] as f64, b[1] as f64, b[2] as f64), x) == DVec3::new(sd[0], sd[1], sd[2]);
            ok &= Lerp::lerp(&DVec4::new(a[0] as f64, a[1] as f64, a[2] as f64, a[3] as f64), &DVec4::new(b[0] as f64, b[1] as f64, b[2] as f64, b[3] as f64), x) == DVec4::new(sd[0], sd[1], sd[2], sd[3]);
            ok &= Lerp::lerp(&IVec2::new(a[0] as i32, a[1] as i32), &IVec2::new(b[0] as i32, b[1] as i32), x) == IVec2::new(si[0], si[1]);
            ok &= Lerp::lerp(&IVec3::new(a[0] as i32, a[1] as i32, a[2] as i32), &IVec3::new(b[0] as i32, b[1] as i32, b[2] as i32), x) == IVec3::new(si[0], si[1], si[2]);
            ok &= Lerp::lerp(&IVec4::new(a[0] as i32, a[1] as i32, a[2] as i32, a[3] as i32), &IVec4::new(b[0] as i32, b[1] as i32, b[2] as i32, b[3] as i32), x) == IVec4::new(si[0], si[1], si[2], si[3]);
            ok &= Lerp::lerp(&UVec2::new(a[0].abs() as u32, a[1].abs() as u32), &UVec2::new(b[0].abs() as u32, b[1].abs() as u32), x) == UVec2::new(su[0], su[1]);
            ok &= Lerp::lerp(&UVec3::new(a[0].abs() as u32, a[1].abs() as u32, a[2].abs() as u32), &UVec3::new(b[0].abs() as u32, b[1].abs() as u32, b[2].abs() as u32), x) == UVec3::new(su[0], su[1], su[2]);
            ok &= Lerp::lerp(&UVec4::new(a[0].abs() as u32, a[1].abs() as u32, a[2].abs() as u32, a[3].abs() as u32), &UVec4::new(b[0].abs() as u32, b[1].abs() as u32, b[2].abs() as u32, b[3].abs() as u32), x) == UVec4::new(su[0], su[1], su[2], su[3]);
            ok &= Lerp::lerp(&I64Vec2::new(a[0] as i64, a[1] as i64), &I64Vec2::new(b[0] as i64, b[1] as i64), x) == I64Vec2::new(si[0] as i64, si[1] as i64);
            ok &= Lerp::lerp(&I64Vec3::new(a[0] as i64, a[1] as i64, a[2] as i64), &I64Vec3::new(b[0] as i64, b[1] as i64, b[2] as i64), x) == I64Vec3::new(si[0] as i64, si[1] as i64, si[2] as i64);
            ok &= Lerp::lerp(&I64Vec4::new(a[0] as i64, a[1] as i64, a[2] as i64, a[3] as i64), &I64Vec4::new(b[0] as i64, b[1] as i64, b[2] as i64, b[3] as i64), x) == I64Vec4::new(si[0] as i64, si[1] as i64, si[2] as i64, si[3] as i64);
            ok &= Lerp::lerp(&U64Vec2::new(a[0].abs() as u64, a[1].abs() as u64), &U64Vec2::new(b[0].abs() as u64, b[1].abs() as u64), x) == U64Vec2::new(su[0] as u64, su[1] as u64);
            ok &= Lerp::lerp(&U64Vec3::new(a[0].abs() as u64, a[1].abs() as u64, a[2].abs() as u64), &U64Vec3::new(b[0].abs() as u64, b[1].abs() as u64, b[2].abs() as u64), x) == U64Vec3::new(su[0] as u64, su[1] as u64, su[2] as u64);
            ok &= Lerp::lerp(&U64Vec4::new(a[0].abs() as u64, a[1].abs() as u64, a[2].abs() as u64, a[3].abs() as u64), &U64Vec4::new(b[0].abs() as u64, b[1].abs() as u64, b[2].abs() as u64, b[3].abs() as u64), x) == U64Vec4::new(su[0] as u64, su[1] as u64, su[2] as u64, su[3] as u64);
            glam_checked += 19;
            if !ok { glam_bad += 1; }
        }
    }
    put(json!({"ev": "summary", "float_checked": float_checked, "float_bad": float_bad, "glam_checked": glam_checked, "glam_bad": glam_bad}), &mut f);
    f.flush().unwrap();
    json!({"records": recs + 1, "evaluations": evals + float_checked + glam_checked, "float_checked": float_checked, "float_bad": float_bad, "glam_checked": glam_checked, "glam_bad": glam_bad})
}
