//! Leg A for the state animator: replay spec-generated histories (REPLAY lines of MC_Animator)
//! on a real StateAnimatorBuilder animator and compare every observation after every call.
use crate::common::*;
use crate::tl::{build_tl, config_tl, config_tl_var, distinct_positions, scale, Tally, Variant, SUBMICRO, TENTH};
use mina::prelude::*;
use serde_json::{json, Value};
use std::panic::{catch_unwind, AssertUnwindSafe};

#[derive(Clone, Copy, Debug, Default, Eq, PartialEq, State)]
pub enum S4 { #[default] S1, S2, S3, S4 }
pub fn st(i: i64) -> S4 { match i { 1 => S4::S1, 2 => S4::S2, 3 => S4::S3, 4 => S4::S4, _ => panic!("state") } }
pub fn st_no(s: &S4) -> i64 { match s { S4::S1 => 1, S4::S2 => 2, S4::S3 => 3, S4::S4 => 4 } }

pub type Anim = EnumStateAnimator<S4, P4Timeline>;

pub fn build_anim(line: &Value, s: i64) -> Anim { build_anim_order(line, s, false) }

/// `on_first`: call `.on(..)` for every state BEFORE `from_state` / `from_values` (the builder documents no
/// order; the result must be the same).
pub fn build_anim_order(line: &Value, s: i64, on_first: bool) -> Anim {
    let pd = line["pd"].as_i64().unwrap();
    let pmap = crate::tl::pmap_of(line);
    let mut init = SENT.clone();
    for (i, v) in line["v0"].as_array().unwrap().iter().enumerate() {
        let p = pmap[i];
        init.set(p, v.as_i64().unwrap() as f64 * if p <= 2 { crate::tl::vscale() as f64 } else { 1.0 });
    }
    let mut b = StateAnimatorBuilder::new();
    if !on_first { b = b.from_state(st(line["s0"].as_i64().unwrap())).from_values(init.clone()); }
    for (i, comps) in line["tls"].as_array().unwrap().iter().enumerate() {
        let comps = comps.as_array().unwrap();
        if comps.is_empty() { continue; }
        // `on` accepts a built timeline, an un-built builder or a merged timeline (TimelineOrBuilder): use all three
        if comps.len() == 1 && (i + s.unsigned_abs() as usize) % 2 == 0 { b = b.on(st(i as i64 + 1), config_tl(&comps[0], pd, &pmap, s)); continue; }
        // the other builder order also adds the keyframes in a rotated order (no effect when the positions are distinct)
        let tls: Vec<P4Timeline> = comps.iter().map(|c| if on_first && distinct_positions(c) { config_tl_var(c, pd, &pmap, s, Variant { rot: 1 + i, ..Variant::default() }).build() } else { build_tl(c, pd, &pmap, s) }).collect();
        b = if tls.len() == 1 { b.on(st(i as i64 + 1), tls.into_iter().next().unwrap()) } else { b.on(st(i as i64 + 1), MergedTimeline::of(tls)) };
    }
    if on_first { b = b.from_values(init).from_state(st(line["s0"].as_i64().unwrap())); }
    b.build()
}

fn dur(ticks: i64, s: i64) -> f64 { ticks as f64 * match s { TENTH => 0.1f32 as f64, SUBMICRO => 5.12e-7, _ => (2.0f64).powi(s as i32) } }

pub fn replay_anim_line(tally: &mut Tally, lineno: usize, line: &Value, scales: &[i64]) {
    tally.lines += 1;
    let pmap = crate::tl::pmap_of(line);
    let ops = line["ops"].as_array().unwrap();
    let obs = line["obs"].as_array().unwrap();
    tally.tag(&format!("config_{}", line["k"]));
    // value scale of the extra pass: the largest power of two keeping every float value finite
    let mut maxabs = 1.0f64;
    for v in line["v0"].as_array().unwrap() { maxabs = maxabs.max(v.as_i64().unwrap().abs() as f64); }
    for comps in line["tls"].as_array().unwrap() { for c in comps.as_array().unwrap() { for kf in c["kfs"].as_array().unwrap() { for d in kf["d"].as_array().unwrap() {
        if let Some(v) = d.as_array().unwrap().first() { maxabs = maxabs.max(v.as_i64().unwrap().abs() as f64); } } } } }
    let mut over = false;
    for comps in line["tls"].as_array().unwrap() { for c in comps.as_array().unwrap() {
        over |= overshoots(c["de"].as_i64().unwrap()) || c["kfs"].as_array().unwrap().iter().any(|k| overshoots(k["e"].as_i64().unwrap())); } }
    let big = extreme_scale(maxabs, over);
    let mut passes: Vec<(i64, f32)> = scales.iter().map(|&s| (s, 1.0f32)).collect();
    passes.push((scales[0], big));
    passes.push((-6, 1.0));          // fine grid, tolerance regime (see `fine` below)
    passes.push((TENTH, 1.0));       // 0.1 s ticks: neither the cycle nor the total is a dyadic number of seconds
    passes.push((SUBMICRO, 1.0));    // 512 ns ticks: single frames below one microsecond
    for &(s, vs) in &passes {
        crate::tl::set_vscale(vs);
        let r = catch_unwind(AssertUnwindSafe(|| {
            let mut t = Tally::new();
            let mut a = build_anim_order(line, s, lineno % 2 == 0);
            let mut twin = build_anim_order(line, s, lineno % 2 == 1);     // same history, time delivered in a different partition (C06); other builder call order
            let tick = scale(s);
            // Below the 1/8 s grid `as_secs_f32` is not exact: the evaluated time may be one f32 step off the
            // exact clock.  Values and the clock are then judged to tolerance, and not at all at instants where
            // an f32 step changes the outcome discontinuously (cycle wrap, exact end).
            let fine = s < -3 || s >= TENTH;
            // instants where a rounding step of the real time changes the outcome discontinuously: the start,
            // every cycle boundary and half cycle up to and including the end; strictly after the end of a finite
            // component nothing moves any more
            let on_edge = |stno: i64, ticks: i64| -> bool {
                line["tls"][(stno - 1) as usize].as_array().unwrap().iter().any(|c| {
                    let tm = &c["tm"];
                    let (cyc, del, rep) = (tm["cyc"].as_i64().unwrap(), tm["del"].as_i64().unwrap(), tm["rep"].as_i64().unwrap());
                    let over = rep != -2 && rep != -3 && ticks > del + cyc * (rep.max(0) + 1);
                    ticks >= del && !over && ((ticks - del) % cyc == 0 || (2 * (ticks - del)) % cyc == 0)
                })
            };
            for (i, (op, ob)) in ops.iter().zip(obs.iter()).enumerate() {
                let ctx = |class: &str, extra: Value| json!({"line": lineno, "scale": s, "step": i + 1, "class": class, "op": op, "detail": extra,
                                                             "history": &ops[..=i], "k": line["k"], "exp_ended": ob["ended"]});
                t.evals += 1;
                if op["op"] == "adv" {
                    let dt = op["dt"].as_i64().unwrap();
                    a.advance(dt as f32 * tick);
                    // twin: zero-length advance, then the same time in two unequal parts, then another zero
                    twin.advance(0.0);
                    let d1 = if i % 2 == 0 { dt / 3 } else { dt - dt / 3 };       // (1,2) and (2,1) thirds alternate
                    twin.advance(d1 as f32 * tick);
                    twin.advance((dt - d1) as f32 * tick);
                    twin.advance(0.0);
                    *t.by_class.entry("adv".into()).or_insert(0) += 1;
                } else {
                    let target = st(op["st"].as_i64().unwrap());
                    let before = a.current_values().bits();
                    let same = *a.current_state() == target;
                    let snap_before = a.verif_snapshot();
                    a.set_state(&target);
                    twin.set_state(&target);
                    let after = a.current_values().bits();
                    *t.by_class.entry(if same { "set-same" } else { "set" }.into()).or_insert(0) += 1;
                    if before != after { t.miss(ctx("nojump", json!({"before": before, "after": after}))); }     // C04
                    if same && a.verif_snapshot() != snap_before { t.miss(ctx("same-state", json!("set_state(current) changed the clock or pause record"))); }
                }
                // observations after the call
                if st_no(a.current_state()) != ob["st"].as_i64().unwrap() { t.miss(ctx("state", json!({"got": st_no(a.current_state()), "expected": ob["st"]}))); }
                // at such an instant the real time may fall on either side of a discontinuity, and the values
                // reached there are inherited by every later blend: the fine pass stops judging this history
                let edge = fine && on_edge(ob["st"].as_i64().unwrap(), ob["ticks"].as_i64().unwrap());
                if edge {
                    // nothing is judged at the instant itself; what was shown there is inherited only if the
                    // state is changed at this very instant (blend start / frozen values), else recomputed
                    let inherits = ops.get(i + 1).map(|n| n["op"] == "set" && n["st"].as_i64() != ob["st"].as_i64()).unwrap_or(false);
                    if inherits { break; }
                    continue;
                }
                if a.is_ended() != ob["ended"].as_bool().unwrap() { t.miss(ctx("ended", json!({"got": a.is_ended(), "expected": ob["ended"], "ticks": ob["ticks"]}))); }
                let v = a.current_values();
                for (pi, term) in ob["vals"].as_array().unwrap().iter().enumerate() {
                    let p = pmap[pi];
                    let ok = if fine { let tv = eval_term(term); (v.get(p) - tv.v).abs() <= if P4::is_int(p) { 1.0 } else { 2e-4 * tv.mag.max(1.0) } }
                             else if vs != 1.0 && !P4::is_int(p) { agrees_any_scaled(&json!([term]), v.get(p), f64::NAN, vs as f64) } else { agrees(term, v.get(p), P4::is_int(p), f64::NAN) };
                    if !ok {
                        t.miss(ctx("vals", json!({"prop": p, "got": v.get(p), "expected": term})));
                    }
                }
                for p in 1..=4usize { if !pmap.contains(&p) && v.get(p) != SENT.get(p) { t.miss(ctx("untouched", json!({"prop": p, "got": v.get(p)}))); } }
                if v.k.to_bits() != SENT.k.to_bits() || v.tag != SENT.tag { t.miss(ctx("untouched", json!("k/tag"))); }
                // internal clock and pause record (hook)
                let (sd, pa) = a.verif_snapshot();
                let exp_p = ob["paused"].as_array().unwrap();
                let exp_pa = if exp_p.is_empty() { None } else { Some((st(exp_p[0].as_i64().unwrap()), dur(exp_p[1].as_i64().unwrap(), s))) };
                // the clock of a state WITHOUT timeline has no observable meaning: not compared
                let animated_now = !line["tls"][(ob["st"].as_i64().unwrap() - 1) as usize].as_array().unwrap().is_empty();
                let clock_ok = if fine { (sd - dur(ob["ticks"].as_i64().unwrap(), s)).abs() <= 1e-7 * (1.0 + sd) && pa.as_ref().map(|p| st_no(&p.0)) == exp_pa.as_ref().map(|p| st_no(&p.0))
                                           && pa.as_ref().zip(exp_pa.as_ref()).map(|(x, y)| (x.1 - y.1).abs() <= 1e-7 * (1.0 + y.1)).unwrap_or(true) }
                               else { sd == dur(ob["ticks"].as_i64().unwrap(), s) && pa == exp_pa };
                if (animated_now && !clock_ok) || (!animated_now && !fine && pa != exp_pa) {
                    t.miss(ctx("snap", json!({"got": [format!("{:?}", sd), format!("{:?}", pa)], "expected_ticks": ob["ticks"], "expected_paused": ob["paused"]})));
                }
                // C06: the twin saw the same total time per state in a different partition (bit-identical on the exact
                // grids; on the finer ones the two clocks may differ by the nanosecond rounding of each part only)
                if fine && animated_now {
                    let tsd = twin.verif_snapshot().0;
                    if (tsd - sd).abs() > 1e-5 + 1e-6 * sd.abs() { t.miss(ctx("framerate", json!({"single_clock": format!("{:?}", sd), "partitioned_clock": format!("{:?}", tsd)}))); }
                }
                if !fine && (twin.current_values().bits() != v.bits() || twin.is_ended() != a.is_ended() || twin.verif_snapshot() != a.verif_snapshot()) {
                    t.miss(ctx("framerate", json!({"single": v.bits(), "partitioned": twin.current_values().bits()})));
                }
            }
            t
        }));
        crate::tl::set_vscale(1.0);
        match r {
            Ok(t) => tally.absorb(t),
            Err(e) => { let msg = e.downcast_ref::<String>().cloned().or_else(|| e.downcast_ref::<&str>().map(|s| s.to_string())).unwrap_or_default();
                        tally.miss(json!({"line": lineno, "scale": s, "class": "panic", "panic": msg, "history": ops})); }
        }
    }
}

// ---------------------------------------------------------------------------------------------
// Leg B: random configurations, random histories, logged for Trace_Animator.

fn rand_cfg(rng: &mut crate::ts::Rng) -> Value {
    let nk = 1 + rng.below(3);
    let mut positions: Vec<i64> = vec![];
    while (positions.len() as u64) < nk { let p = rng.below(9) as i64; if !positions.contains(&p) { positions.push(p); } }
    let kfs: Vec<Value> = positions.iter().map(|&p| {
        let d: Vec<Value> = (0..4).map(|i| if rng.below(5) < 2 { json!([]) } else { json!([(rng.below(121) as i64 - 20) * if i < 2 { 1 } else { 2 }]) }).collect();
        let e = if rng.below(4) == 0 { if rng.below(2) == 0 { 10 + rng.below(29) as i64 } else { 1 + rng.below(5) as i64 } } else { 0 };
        json!({"pos": p, "d": d, "e": e})
    }).collect();
    let de = if rng.below(3) == 0 { 10 + rng.below(29) as i64 } else { [1i64, 1, 2, 3, 4, 5][rng.below(6) as usize] };
    let del = if rng.below(3) == 0 { rng.below(6) as i64 } else { 0 };
    let rep = [-1i64, -1, 0, 1, 2, -2][rng.below(6) as usize];
    json!({"kfs": kfs, "de": de, "tm": {"cyc": 1 + rng.below(16) as i64, "del": del, "rep": rep, "rev": rng.below(3) == 0}})
}

pub fn drive_anim(seed: u64, nworlds: usize, nops: usize, out: &str) -> Value {
    use std::io::Write;
    let mut rng = crate::ts::Rng(seed.wrapping_mul(0x9E3779B97F4A7C15) | 1);
    let mut f = std::io::BufWriter::new(std::fs::File::create(out).unwrap());
    let (mut events, mut sets) = (0u64, 0u64);
    let mut sample = vec![];
    for _ in 0..nworlds {
        let tls: Vec<Value> = (0..4).map(|_| match rng.below(20) { 0..=6 => json!([]), 7..=15 => json!([rand_cfg(&mut rng)]), _ => json!([rand_cfg(&mut rng), rand_cfg(&mut rng)]) }).collect();
        let v0 = vec![rng.below(50) as i64 - 10, rng.below(50) as i64, rng.below(100) as i64 - 50, rng.below(100) as i64];
        let s0 = 1 + rng.below(4);
        let cfg = json!({"ev": "cfg", "pd": 8, "np": 4, "tls": tls, "s0": s0, "v0": v0});
        writeln!(f, "{}", cfg).unwrap();
        let mut a = build_anim(&cfg, -3);
        let obs = |a: &Anim| { let (sd, pa) = a.verif_snapshot();
            (st_no(a.current_state()), a.is_ended() as i64, (sd * 8.0).round() as i64, match pa { None => json!([]), Some((s, d)) => json!([st_no(&s), (d * 8.0).round() as i64]) }) };
        for _ in 0..nops {
            let rec = if rng.below(5) < 3 {
                let dt = [0i64, 1, 1, 2, 3, 5, 8, 13, 40][rng.below(9) as usize];
                if catch_unwind(AssertUnwindSafe(|| a.advance(dt as f32 * 0.125))).is_err() {
                    writeln!(f, "{}", json!({"ev": "adv", "dt": dt, "st": -1, "ended": -1, "ticks": -1, "paused": [], "vb": [0, 0, 0, 0, 0, 0], "panic": 1})).unwrap();
                    events += 1; break;
                }
                let (s, e, t, p) = obs(&a);
                json!({"ev": "adv", "dt": dt, "st": s, "ended": e, "ticks": t, "paused": p, "vb": a.current_values().bits()})
            } else {
                let to = 1 + rng.below(4) as i64;
                let before = a.current_values().bits();
                if catch_unwind(AssertUnwindSafe(|| a.set_state(&st(to)))).is_err() {
                    writeln!(f, "{}", json!({"ev": "set", "to": to, "st": -1, "ended": -1, "ticks": -1, "paused": [], "before": before, "after": before, "vb": before, "panic": 1})).unwrap();
                    events += 1; break;
                }
                let (s, e, t, p) = obs(&a);
                sets += 1;
                json!({"ev": "set", "to": to, "st": s, "ended": e, "ticks": t, "paused": p, "before": before, "after": a.current_values().bits(), "vb": a.current_values().bits()})
            };
            if sample.len() < 3 && events % 11 == 5 { sample.push(json!({"cfg": cfg, "event": rec})); }
            writeln!(f, "{}", rec).unwrap();
            events += 1;
        }
    }
    f.flush().unwrap();
    json!({"worlds": nworlds, "events": events, "set_state_calls": sets, "samples": sample})
}

/// Compares the logged current_values with the value terms predicted by Trace_Animator (PRED lines).
pub fn judge_anim(trace: &str, preds: &str) -> Value {
    use std::io::BufRead;
    let mut worlds: Vec<Vec<Value>> = vec![];
    for l in std::io::BufReader::new(std::fs::File::open(trace).unwrap()).lines() {
        let r: Value = serde_json::from_str(&l.unwrap()).unwrap();
        if r["ev"] == "cfg" { worlds.push(vec![r]); } else { worlds.last_mut().unwrap().push(r); }
    }
    let mut by_world: std::collections::BTreeMap<u64, Value> = Default::default();
    for l in std::io::BufReader::new(std::fs::File::open(preds).unwrap()).lines() {
        let l = l.unwrap();
        if let Some(rest) = l.trim().strip_prefix("<<\"PRED\", ") {
            let inner: String = serde_json::from_str(rest.strip_suffix(">>").unwrap()).unwrap();
            let v: Value = serde_json::from_str(&inner).unwrap();
            by_world.insert(v["world"].as_u64().unwrap(), v);
        }
    }
    let (mut checked, mut mism) = (0u64, vec![]);
    for (wi, w) in worlds.iter().enumerate() {
        let Some(p) = by_world.get(&(wi as u64 + 1)) else { mism.push(json!({"world": wi + 1, "what": "no prediction"})); continue; };
        let pred = p["pred"].as_array().unwrap();
        for (k, ev) in w.iter().skip(1).enumerate() {
            let vb = ev["vb"].as_array().unwrap();
            let got = [f32::from_bits(vb[0].as_i64().unwrap() as u32) as f64, f32::from_bits(vb[1].as_i64().unwrap() as u32) as f64, vb[2].as_i64().unwrap() as f64, vb[3].as_i64().unwrap() as f64];
            for pi in 0..4 {
                checked += 1;
                if !agrees(&pred[k][pi], got[pi], pi >= 2, f64::NAN) && mism.len() < 8 {
                    mism.push(json!({"world": wi + 1, "step": k + 1, "prop": pi + 1, "got": got[pi], "expected": pred[k][pi], "event": ev, "cfg": w[0]}));
                }
            }
        }
    }
    json!({"worlds": worlds.len(), "values_checked": checked, "mismatches": mism.len(), "first": mism})
}
