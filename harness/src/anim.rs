//! Leg A for the state animator: replay spec-generated histories (REPLAY lines of MC_Animator)
//! on a real StateAnimatorBuilder animator and compare every observation after every call.
use crate::common::*;
use crate::tl::{build_tl, scale, Tally};
use mina::prelude::*;
use serde_json::{json, Value};
use std::panic::{catch_unwind, AssertUnwindSafe};

#[derive(Clone, Copy, Debug, Default, Eq, PartialEq, State)]
pub enum S4 { #[default] S1, S2, S3, S4 }
pub fn st(i: i64) -> S4 { match i { 1 => S4::S1, 2 => S4::S2, 3 => S4::S3, 4 => S4::S4, _ => panic!("state") } }
pub fn st_no(s: &S4) -> i64 { match s { S4::S1 => 1, S4::S2 => 2, S4::S3 => 3, S4::S4 => 4 } }

pub type Anim = EnumStateAnimator<S4, P4Timeline>;

pub fn build_anim(line: &Value, s: i64) -> Anim {
    let pd = line["pd"].as_i64().unwrap();
    let pmap = crate::tl::pmap_of(line);
    let mut init = SENT.clone();
    for (i, v) in line["v0"].as_array().unwrap().iter().enumerate() { init.set(pmap[i], v.as_i64().unwrap() as f64); }
    let mut b = StateAnimatorBuilder::new().from_state(st(line["s0"].as_i64().unwrap())).from_values(init);
    for (i, comps) in line["tls"].as_array().unwrap().iter().enumerate() {
        let comps = comps.as_array().unwrap();
        if comps.is_empty() { continue; }
        let tls: Vec<P4Timeline> = comps.iter().map(|c| build_tl(c, pd, &pmap, s)).collect();
        b = if tls.len() == 1 { b.on(st(i as i64 + 1), tls.into_iter().next().unwrap()) } else { b.on(st(i as i64 + 1), MergedTimeline::of(tls)) };
    }
    b.build()
}

fn dur(ticks: i64, s: i64) -> f64 { ticks as f64 * (2.0f64).powi(s as i32) }

pub fn replay_anim_line(tally: &mut Tally, lineno: usize, line: &Value, scales: &[i64]) {
    tally.lines += 1;
    let pmap = crate::tl::pmap_of(line);
    let ops = line["ops"].as_array().unwrap();
    let obs = line["obs"].as_array().unwrap();
    tally.tag(&format!("config_{}", line["k"]));
    for &s in scales {
        let r = catch_unwind(AssertUnwindSafe(|| {
            let mut t = Tally::new();
            let mut a = build_anim(line, s);
            let mut twin = build_anim(line, s);     // same history, time delivered in a different partition (C06)
            let tick = scale(s);
            for (i, (op, ob)) in ops.iter().zip(obs.iter()).enumerate() {
                let ctx = |class: &str, extra: Value| json!({"line": lineno, "scale": s, "step": i + 1, "class": class, "op": op, "detail": extra,
                                                             "history": &ops[..=i], "k": line["k"], "exp_ended": ob["ended"]});
                t.evals += 1;
                if op["op"] == "adv" {
                    let dt = op["dt"].as_i64().unwrap();
                    a.advance(dt as f32 * tick);
                    // twin: zero-length advance, then the same time in two unequal parts, then another zero
                    twin.advance(0.0);
                    let d1 = dt / 3;
                    twin.advance(d1 as f32 * tick);
                    twin.advance((dt - d1) as f32 * tick);
                    twin.advance(0.0);
                    *t.by_class.entry("adv".into()).or_insert(0) += 1;
                } else {
                    let target = st(op["st"].as_i64().unwrap());
                    let before = a.current_values().bits();
                    let same = *a.current_state() == target;
                    let snap_before = a.verif_snapshot();
                    a.set_state(&target);
                    twin.set_state(&target);
                    let after = a.current_values().bits();
                    *t.by_class.entry(if same { "set-same" } else { "set" }.into()).or_insert(0) += 1;
                    if before != after { t.miss(ctx("nojump", json!({"before": before, "after": after}))); }     // C04
                    if same && a.verif_snapshot() != snap_before { t.miss(ctx("same-state", json!("set_state(current) changed the clock or pause record"))); }
                }
                // observations after the call
                if st_no(a.current_state()) != ob["st"].as_i64().unwrap() { t.miss(ctx("state", json!({"got": st_no(a.current_state()), "expected": ob["st"]}))); }
                if a.is_ended() != ob["ended"].as_bool().unwrap() { t.miss(ctx("ended", json!({"got": a.is_ended(), "expected": ob["ended"], "ticks": ob["ticks"]}))); }
                let v = a.current_values();
                for (pi, term) in ob["vals"].as_array().unwrap().iter().enumerate() {
                    let p = pmap[pi];
                    if !agrees(term, v.get(p), P4::is_int(p), f64::NAN) {
                        t.miss(ctx("vals", json!({"prop": p, "got": v.get(p), "expected": term})));
                    }
                }
                for p in 1..=4usize { if !pmap.contains(&p) && v.get(p) != SENT.get(p) { t.miss(ctx("untouched", json!({"prop": p, "got": v.get(p)}))); } }
                if v.k.to_bits() != SENT.k.to_bits() || v.tag != SENT.tag { t.miss(ctx("untouched", json!("k/tag"))); }
                // internal clock and pause record (hook)
                let (sd, pa) = a.verif_snapshot();
                let exp_p = ob["paused"].as_array().unwrap();
                let exp_pa = if exp_p.is_empty() { None } else { Some((st(exp_p[0].as_i64().unwrap()), dur(exp_p[1].as_i64().unwrap(), s))) };
                if sd != dur(ob["ticks"].as_i64().unwrap(), s) || pa != exp_pa {
                    t.miss(ctx("snap", json!({"got": [format!("{:?}", sd), format!("{:?}", pa)], "expected_ticks": ob["ticks"], "expected_paused": ob["paused"]})));
                }
                // C06: the twin saw the same total time per state in a different partition
                if twin.current_values().bits() != v.bits() || twin.is_ended() != a.is_ended() || twin.verif_snapshot() != a.verif_snapshot() {
                    t.miss(ctx("framerate", json!({"single": v.bits(), "partitioned": twin.current_values().bits()})));
                }
            }
            t
        }));
        match r {
            Ok(t) => tally.absorb(t),
            Err(e) => { let msg = e.downcast_ref::<String>().cloned().or_else(|| e.downcast_ref::<&str>().map(|s| s.to_string())).unwrap_or_default();
                        tally.miss(json!({"line": lineno, "scale": s, "class": "panic", "panic": msg, "history": ops})); }
        }
    }
}
