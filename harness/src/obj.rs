//! Leg A for timelines as objects (C09 purity, C12 merged timelines): replay REPLAY lines of
//! MC_Objects on real P4Timeline / MergedTimeline objects.
use crate::common::*;
use crate::tl::{build_tl, scale, Tally};
use mina::prelude::*;
use serde_json::{json, Value};
use std::panic::{catch_unwind, AssertUnwindSafe};

#[derive(Clone)]
enum Obj { Single(P4Timeline), Merged(MergedTimeline<P4Timeline>) }
impl Obj {
    fn update(&self, t: &mut P4, time: f32) { match self { Obj::Single(x) => x.update(t, time), Obj::Merged(x) => x.update(t, time) } }
    fn start_with(&mut self, v: &P4) { match self { Obj::Single(x) => x.start_with(v), Obj::Merged(x) => x.start_with(v) } }
    fn meta(&self) -> (f32, f32, Repeat, Option<f32>) { match self {
        Obj::Single(x) => (x.delay(), x.duration(), x.repeat(), x.cycle_duration()),
        Obj::Merged(x) => (x.delay(), x.duration(), x.repeat(), x.cycle_duration()) } }
}

fn garbage(g: i64) -> P4 {
    match g { 0 => SENT.clone(), 1 => P4 { x: 3.25, y: -7.5, n: 12345, m: -77, k: SENT.k, tag: SENT.tag },
              _ => P4 { x: 1.0e6, y: 0.0, n: 0, m: 1, k: SENT.k, tag: SENT.tag } }
}

pub fn replay_obj_line(tally: &mut Tally, lineno: usize, line: &Value, scales: &[i64]) {
    tally.lines += 1;
    let pd = line["pd"].as_i64().unwrap();
    let pmap: Vec<usize> = vec![1, 2, 3, 4];
    let comps = line["comps"].as_array().unwrap();
    let ops = line["ops"].as_array().unwrap();
    let obs = line["obs"].as_array().unwrap();
    tally.tag(&format!("object_{}_components_{}", line["ko"], comps.len()));
    for &s in scales {
        let r = catch_unwind(AssertUnwindSafe(|| {
            let mut t = Tally::new();
            let tick = scale(s);
            let tls: Vec<P4Timeline> = comps.iter().map(|c| build_tl(c, pd, &pmap, s)).collect();
            // a single component is used both raw and wrapped: "wrapping a single timeline changes nothing" (C12)
            let mut objs: Vec<Obj> = vec![if tls.len() == 1 { Obj::Single(tls[0].clone()) } else { Obj::Merged(MergedTimeline::of(tls.clone())) }];
            let mut wrapped: Vec<Option<MergedTimeline<P4Timeline>>> = vec![if tls.len() == 1 { Some(MergedTimeline::from(tls[0].clone())) } else { None }];
            // the latest start_with values of every object (a clone inherits them)
            let mut ovs: Vec<Option<P4>> = vec![None];
            for (i, (op, ob)) in ops.iter().zip(obs.iter()).enumerate() {
                let ctx = |class: &str, extra: Value| json!({"line": lineno, "scale": s, "step": i + 1, "class": class, "op": op, "detail": extra, "history": &ops[..=i], "ko": line["ko"]});
                let oi = op["o"].as_u64().unwrap() as usize - 1;
                t.evals += 1;
                *t.by_class.entry(op["op"].as_str().unwrap().to_string()).or_insert(0) += 1;
                match op["op"].as_str().unwrap() {
                    "upd" => {
                        let g = garbage(op["g"].as_i64().unwrap());
                        let time = op["t"].as_i64().unwrap() as f32 * tick;
                        let mut target = g.clone();
                        objs[oi].update(&mut target, time);
                        for (pi, alts) in ob["vals"].as_array().unwrap().iter().enumerate() {
                            let p = pi + 1;
                            if !agrees_any(alts, target.get(p), P4::is_int(p), g.get(p)) {
                                t.miss(ctx("value", json!({"prop": p, "got": target.get(p), "expected": alts, "prior": g.get(p)})));
                            }
                        }
                        if target.k.to_bits() != g.k.to_bits() || target.tag != g.tag { t.miss(ctx("value", json!("non-animated field touched"))); }
                        // idempotent: evaluating again into the result gives the same result (C09)
                        let mut again = target.clone();
                        objs[oi].update(&mut again, time);
                        if again.bits() != target.bits() { t.miss(ctx("idempotent", json!({"first": target.bits(), "second": again.bits()}))); }
                        // independent of the prior contents of animated properties
                        let mut other = garbage((op["g"].as_i64().unwrap() + 1) % 3);
                        objs[oi].update(&mut other, time);
                        for (pi, alts) in ob["vals"].as_array().unwrap().iter().enumerate() {
                            let untouched = alts.as_array().unwrap().iter().any(|a| a[0] == "U");
                            if !untouched && other.get(pi + 1) != target.get(pi + 1) { t.miss(ctx("prior-contents", json!({"prop": pi + 1, "a": target.get(pi + 1), "b": other.get(pi + 1)}))); }
                        }
                        // a timeline built afresh from the same description, given the same (latest) start_with and
                        // never evaluated before, produces the same bits: nothing but (timeline, start_with, time) counts (C09)
                        {
                            let ftls: Vec<P4Timeline> = comps.iter().map(|c| build_tl(c, pd, &pmap, s)).collect();
                            let mut fresh = if ftls.len() == 1 { Obj::Single(ftls.into_iter().next().unwrap()) } else { Obj::Merged(MergedTimeline::of(ftls)) };
                            if let Some(v) = &ovs[oi] { fresh.start_with(v); }
                            let mut tf = g.clone();
                            fresh.update(&mut tf, time);
                            if tf.bits() != target.bits() { t.miss(ctx("history-dependent", json!({"used_object": target.bits(), "fresh_object": tf.bits()}))); }
                        }
                        if let Some(w) = &wrapped[oi] {
                            let mut tw = g.clone();
                            w.update(&mut tw, time);
                            if tw.bits() != target.bits() { t.miss(ctx("single-wrapped", json!({"raw": target.bits(), "wrapped": tw.bits()}))); }
                        }
                    }
                    "sw" => {
                        let vals = &line["vals"][op["v"].as_u64().unwrap() as usize - 1];
                        let mut v = P4 { k: 9.0, tag: None, ..P4::default() };
                        for p in 1..=4 { v.set(p, vals[p - 1].as_i64().unwrap() as f64); }
                        objs[oi].start_with(&v);
                        if let Some(w) = wrapped[oi].as_mut() { w.start_with(&v); }
                        ovs[oi] = Some(v);
                    }
                    "clone" => { let c = objs[oi].clone(); objs.push(c); let w = wrapped[oi].clone(); wrapped.push(w); let o = ovs[oi].clone(); ovs.push(o); }
                    o => panic!("op {o}"),
                }
                // metadata after every operation (C09: start_with leaves timing alone; C12: aggregates)
                let m = &ob["meta"];
                let (d, tot, rep, cyc) = objs[oi].meta();
                let exp_tot = if m["total"].as_i64().unwrap() >= 1_000_000_000 { f32::INFINITY } else { m["total"].as_i64().unwrap() as f32 * tick };
                let exp_cyc = if m["cycle"].as_i64().unwrap() == 0 { None } else { Some(m["cycle"].as_i64().unwrap() as f32 * tick) };
                let rep_ok = m["reps"].as_array().unwrap().iter().any(|r| repeat_of(r.as_i64().unwrap()) == rep);
                let huge = m["total"].as_i64().unwrap() == 999_999_999;   // a component repeating u32::MAX times: finite, >= 2^32 ticks
                let tot_ok = if huge { tot.is_finite() && tot >= 4294967296.0 * tick } else { tot == exp_tot };
                if d != m["delay"].as_i64().unwrap() as f32 * tick || !tot_ok || !rep_ok || cyc != exp_cyc {
                    t.miss(ctx("meta", json!({"got": [d.to_string(), tot.to_string(), format!("{:?}", rep), format!("{:?}", cyc)], "expected": m})));
                }
                if let Some(w) = &wrapped[oi] {
                    if (w.delay(), w.duration(), w.repeat(), w.cycle_duration()) != (d, tot, rep, cyc) { t.miss(ctx("single-wrapped", json!("metadata differs"))); }
                }
                // a merged timeline of merged timelines, the first one empty (cycle duration undefined)
                if op["op"] == "upd" && !tls.is_empty() {
                    let nested = MergedTimeline::of([MergedTimeline::of(Vec::<P4Timeline>::new()), MergedTimeline::of(tls.clone())]);
                    let nm = &m["nested"];
                    let n_tot_ok = if huge { nested.duration().is_finite() && nested.duration() >= 4294967296.0 * tick } else { nested.duration() == exp_tot };
                    let n_rep_ok = nm["reps"].as_array().unwrap().iter().any(|r| repeat_of(r.as_i64().unwrap()) == nested.repeat());
                    if nested.delay() != 0.0 || !n_tot_ok || !n_rep_ok || nested.cycle_duration().is_some() {
                        t.miss(ctx("meta", json!({"nested": [nested.delay().to_string(), nested.duration().to_string(), format!("{:?}", nested.repeat()), format!("{:?}", nested.cycle_duration())], "expected": nm})));
                    }
                }
            }
            t
        }));
        match r {
            Ok(t) => tally.absorb(t),
            Err(e) => { let msg = e.downcast_ref::<String>().cloned().or_else(|| e.downcast_ref::<&str>().map(|s| s.to_string())).unwrap_or_default();
                        tally.miss(json!({"line": lineno, "scale": s, "class": "panic", "panic": msg, "history": ops})); }
        }
    }
}
