//! Shared pieces: the animated struct family, the easing table shared with the TLA+ spec,
//! and the evaluator for the spec's exact value terms.
use mina::prelude::*;
use mina_core::easing::EasingFunction;
use serde_json::Value;

/// The struct every timeline / animator check animates. Property ids of the spec:
/// 1 = x (f32), 2 = y (f32), 3 = n (i32), 4 = m (i16). `k` and `tag` are never animated.
#[derive(Animate, Clone, Debug, Default, PartialEq)]
pub struct P4 {
    #[animate] pub x: f32,
    #[animate] pub y: f32,
    #[animate] pub n: i32,
    #[animate] pub m: i16,
    pub k: f32,
    pub tag: Option<u8>,
}

pub const SENT: P4 = P4 { x: -1001.5, y: -1002.5, n: -1003, m: -1004, k: -1005.5, tag: Some(7) };

impl P4 {
    pub fn get(&self, p: usize) -> f64 {
        match p { 1 => self.x as f64, 2 => self.y as f64, 3 => self.n as f64, 4 => self.m as f64, _ => panic!("prop") }
    }
    pub fn set(&mut self, p: usize, v: f64) {
        match p { 1 => self.x = v as f32, 2 => self.y = v as f32, 3 => self.n = v as i32, 4 => self.m = v as i16, _ => panic!("prop") }
    }
    pub fn is_int(p: usize) -> bool { p >= 3 }
    pub fn bits(&self) -> [i64; 6] {
        [self.x.to_bits() as i64, self.y.to_bits() as i64, self.n as i64, self.m as i64, self.k.to_bits() as i64,
         self.tag.map(|t| t as i64).unwrap_or(-1)]
    }
}

#[derive(Clone, Debug)] pub struct Sq;
impl EasingFunction for Sq { fn calc(&self, x: f32) -> f32 { x * x } }
#[derive(Clone, Debug)] pub struct OutSq;
impl EasingFunction for OutSq { fn calc(&self, x: f32) -> f32 { 2.0 * x - x * x } }

/// Custom easings that leave [0,1] (a custom easing must be used as given, C13).
#[derive(Clone, Debug)] pub struct Over;
impl EasingFunction for Over { fn calc(&self, x: f32) -> f32 { 2.5 * x - 1.5 * x * x } }
#[derive(Clone, Debug)] pub struct Under;
impl EasingFunction for Under { fn calc(&self, x: f32) -> f32 { 1.5 * x * x - 0.5 * x } }

pub const BUILTIN_NAMES: [&str; 29] = ["Linear","Ease","In","Out","InOut","InSine","OutSine","InOutSine","InQuad","OutQuad","InOutQuad","InCubic","OutCubic","InOutCubic","InQuart","OutQuart","InOutQuart","InQuint","OutQuint","InOutQuint","InExpo","OutExpo","InOutExpo","InCirc","OutCirc","InOutCirc","InBack","OutBack","InOutBack"];

pub fn builtin(i: usize) -> Easing {
    use Easing::*;
    match i { 0=>Linear,1=>Ease,2=>In,3=>Out,4=>InOut,5=>InSine,6=>OutSine,7=>InOutSine,8=>InQuad,9=>OutQuad,10=>InOutQuad,
      11=>InCubic,12=>OutCubic,13=>InOutCubic,14=>InQuart,15=>OutQuart,16=>InOutQuart,17=>InQuint,18=>OutQuint,19=>InOutQuint,
      20=>InExpo,21=>OutExpo,22=>InOutExpo,23=>InCirc,24=>OutCirc,25=>InOutCirc,26=>InBack,27=>OutBack,28=>InOutBack,
      _ => panic!("easing index") }
}

/// Easing ids shared with the spec: 1 Lin, 2 Sq (custom x^2), 3 OutSq (custom 2x-x^2), 4 Over / 5 Under
/// (customs leaving [0,1]), 10+i built-in i.
pub fn easing(id: i64) -> Easing {
    match id { 1 => Easing::Linear, 2 => Easing::Custom(Box::new(Sq)), 3 => Easing::Custom(Box::new(OutSq)),
        4 => Easing::Custom(Box::new(Over)), 5 => Easing::Custom(Box::new(Under)),
        i if (10..39).contains(&i) => builtin((i - 10) as usize), _ => panic!("easing id {id}") }
}

/// The oracle's easing: exact for the model easings, the implementation's own `calc` for
/// built-ins (their correctness is C13's business, not the structural checks').
pub fn ease_f64(id: i64, x: f64) -> f64 {
    match id { 1 => x, 2 => x * x, 3 => 2.0 * x - x * x, 4 => 2.5 * x - 1.5 * x * x, 5 => 1.5 * x * x - 0.5 * x, _ => easing(id).calc(x as f32) as f64 }
}

/// Off the dyadic grids (macro sentences in milliseconds) even predicted constants carry the f32
/// rounding of the time axis: use the generic relative tolerance for them too.
pub static LOOSE_CONSTANTS: std::sync::atomic::AtomicBool = std::sync::atomic::AtomicBool::new(false);

pub struct TermVal { pub v: f64, pub mag: f64, pub tie: bool, pub untouched: bool }

/// Evaluates a spec term (see Terms.tla). `mag` = largest operand magnitude (for relative tolerance),
/// `tie` = a rounding happened within 1e-4 of a half.
pub fn eval_term(t: &Value) -> TermVal {
    let a = t.as_array().expect("term array");
    match a[0].as_str().expect("tag") {
        "i" => { let v = a[1].as_i64().unwrap() as f64; TermVal { v, mag: v.abs(), tie: false, untouched: false } }
        "q" => { let v = a[1].as_i64().unwrap() as f64 / a[2].as_i64().unwrap() as f64; TermVal { v, mag: v.abs(), tie: false, untouched: false } }
        "U" => TermVal { v: f64::NAN, mag: 0.0, tie: false, untouched: true },
        "L" => {
            let (x, y) = (eval_term(&a[1]), eval_term(&a[2]));
            let f = a[4].as_i64().unwrap() as f64 / a[5].as_i64().unwrap() as f64;
            let e = ease_f64(a[3].as_i64().unwrap(), f);
            TermVal { v: x.v * (1.0 - e) + y.v * e, mag: x.mag.max(y.mag) * (1.0 + e.abs()), tie: x.tie || y.tie, untouched: false }
        }
        "R" => {
            let x = eval_term(&a[1]);
            let fr = (x.v - x.v.floor() - 0.5).abs();
            TermVal { v: if x.v >= 0.0 { (x.v + 0.5).floor() } else { -((-x.v + 0.5).floor()) }, mag: x.mag, tie: x.tie || fr < 1e-4, untouched: false }
        }
        other => panic!("unknown term tag {other}"),
    }
}

/// Does the implementation's value `got` (as f64; ints exact) agree with the spec term?
pub fn agrees(term: &Value, got: f64, is_int: bool, sentinel: f64) -> bool {
    let tv = eval_term(term);
    if tv.untouched { return got == sentinel; }
    if is_int {
        if got == tv.v { return true; }
        tv.tie && (got - tv.v).abs() <= 1.0
    } else {
        let tag = term.as_array().unwrap()[0].as_str().unwrap();
        if (tag == "i" || tag == "q") && !LOOSE_CONSTANTS.load(std::sync::atomic::Ordering::Relaxed) {
            // a value the spec predicts without any arithmetic (keyframe hit, start, terminal
            // value): "to within a few ulps"
            let f = tv.v as f32;
            (got - tv.v).abs() <= 4.0 * (f.abs().max(f32::MIN_POSITIVE) as f64) * (2.0f64).powi(-23)
        } else {
            let loose = LOOSE_CONSTANTS.load(std::sync::atomic::Ordering::Relaxed);
            (got - tv.v).abs() <= (if loose { 4e-5 } else { 4e-6 }) * tv.mag.max(1.0)
        }
    }
}

pub fn agrees_any(alts: &Value, got: f64, is_int: bool, sentinel: f64) -> bool {
    alts.as_array().expect("alternatives").iter().any(|t| agrees(t, got, is_int, sentinel))
}

/// Float properties replayed with every value multiplied by `scale` (a power of two: exact in f32, and
/// lerp is linear): the implementation must produce `scale` times the term's value.
pub fn agrees_any_scaled(alts: &Value, got: f64, sentinel: f64, scale: f64) -> bool {
    alts.as_array().expect("alternatives").iter().any(|t| {
        let tv = eval_term(t);
        if tv.untouched { return got == sentinel; }
        got.is_finite() && (got - tv.v * scale).abs() <= 4e-6 * tv.mag.max(1.0) * scale
    })
}

pub fn repeat_of(rep: i64) -> Repeat {
    match rep { -1 => Repeat::None, -2 => Repeat::Infinite, -3 => Repeat::Times(u32::MAX), n if n >= 0 => Repeat::Times(n as u32), _ => panic!("rep") }
}

/// Easings whose output leaves [0,1] (Back family, customs Over / Under): with them a lerp between values
/// near +-f32::MAX may legitimately overflow, so the scaled-value pass keeps more headroom.
pub fn overshoots(id: i64) -> bool { matches!(id, 4 | 5 | 36 | 37 | 38) }

/// Largest power-of-two scale for the extreme-value pass: values up to 3e38 (differences beyond f32::MAX)
/// when no easing overshoots, up to 1e38 otherwise.
pub fn extreme_scale(maxabs: f64, any_overshoot: bool) -> f32 {
    let bound = if any_overshoot { 1.0e38f64 } else { 3.0e38f64 };
    (2.0f64).powi((bound / maxabs.max(1.0)).log2().floor() as i32) as f32
}
