//! Library face of the harness, so that generated programs (macro checks) can reuse the
//! replay machinery.
pub mod anim;
pub mod common;
pub mod extreme;
pub mod laws;
pub mod macroless;
pub mod obj;
pub mod tl;
pub mod ts;

use serde_json::Value;
use std::io::{BufRead, BufReader};

/// Reads REPLAY lines as printed by TLC (`<<"REPLAY", "<json>">>`) or plain JSON lines.
pub fn read_lines(path: &str) -> Vec<Value> {
    let f = std::fs::File::open(path).expect("open input");
    let mut out = vec![];
    for l in BufReader::new(f).lines() {
        let l = l.unwrap();
        let l = l.trim();
        if let Some(rest) = l.strip_prefix("<<\"REPLAY\", ") {
            let q = rest.strip_suffix(">>").expect("REPLAY suffix");
            let inner: String = serde_json::from_str(q).expect("TLC string literal");
            out.push(serde_json::from_str(&inner).expect("inner json"));
        } else if l.starts_with('{') {
            out.push(serde_json::from_str(l).expect("json line"));
        }
    }
    out
}
