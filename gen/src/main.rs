//! Compiles the TLC-generated sentences with the REAL macros (the generated file is included from
//! $VERIF_GEN_DIR at build time) and compares macro-built objects with the builder twin (bit for bit)
//! and with the specification's predictions.
use harness::common::*;
use harness::tl::{check_timeline, Tally};
use mina::prelude::*;
use serde_json::{json, Value};

include!(concat!(env!("VERIF_GEN_DIR"), "/sentences.rs"));

/// Grammar.tla counts time in ticks of half a millisecond (TPM = 2)
fn secs(t: i64) -> f32 { t as f32 / 2000.0 }

fn same_meta(a: &dyn Timeline<Target = P4>, b: &dyn Timeline<Target = P4>) -> bool {
    a.delay().to_bits() == b.delay().to_bits() && a.duration().to_bits() == b.duration().to_bits() && a.repeat() == b.repeat()
        && a.cycle_duration().map(f32::to_bits) == b.cycle_duration().map(f32::to_bits)
}

fn main() {
    std::panic::set_hook(Box::new(|_| {}));
    LOOSE_CONSTANTS.store(true, std::sync::atomic::Ordering::Relaxed);
    let args: Vec<String> = std::env::args().collect();
    let lines = harness::read_lines(&args[1]);
    assert_eq!(lines.len(), N, "generated program and REPLAY file differ");
    assert!(lines.iter().all(|l| l["tpm"] == 2), "tick length of the specification differs from the harness");
    let pmap = vec![1usize, 2, 3, 4];
    let mut tally = Tally::new();
    for i in 0..N {
        let line = &lines[i];
        tally.lines += 1;
        let r = std::panic::catch_unwind(|| {
            let mut t = Tally::new();
            let (m, b) = (by_macro(i), by_builder(i));
            // macro == builder twin, observationally: metadata and values at the sampled times, bit for bit
            if !same_meta(&m, &b) { t.miss(json!({"line": i, "class": "twin-meta", "macro": [m.delay(), m.duration(), m.cycle_duration().unwrap()], "builder": [b.delay(), b.duration(), b.cycle_duration().unwrap()], "args": line["args"]})); }
            for ts in line["tw"].as_array().unwrap().iter().chain(line["ts"].as_array().unwrap().iter()) {
                let time = secs(ts.as_i64().unwrap());
                let (mut x, mut y) = (SENT.clone(), SENT.clone());
                m.update(&mut x, time); b.update(&mut y, time);
                t.evals += 1;
                if x.bits() != y.bits() { t.miss(json!({"line": i, "class": "twin-value", "t_ticks": ts, "macro": x.bits(), "builder": y.bits(), "args": line["args"]})); break; }
            }
            // macro == specification's reading
            check_timeline(&mut t, i, 0, line, &m, &secs, &[1, 2, 3, 4]);
            t
        });
        match r { Ok(t) => tally.absorb(t), Err(_) => tally.miss(json!({"line": i, "class": "panic", "args": line["args"]})) }
    }
    for j in 0..NM {
        let (m, b) = (merged_by_macro(j), merged_by_builder(j));
        tally.tag("merged_lists");
        if !same_meta(&m, &b) { tally.miss(json!({"merged": j, "class": "twin-meta", "members": merged_members(j)})); }
        let mut times: Vec<i64> = vec![];
        for k in merged_members(j) { for t in lines[k]["tw"].as_array().unwrap() { times.push(t.as_i64().unwrap()); } }
        for t in times {
            let (mut x, mut y) = (SENT.clone(), SENT.clone());
            m.update(&mut x, secs(t)); b.update(&mut y, secs(t));
            tally.evals += 1;
            if x.bits() != y.bits() { tally.miss(json!({"merged": j, "class": "twin-value", "t_ticks": t, "members": merged_members(j)})); break; }
        }
        // the merged list is the ordered overlay of its members (spec: EvalMerged) - members applied in order
        let mut z = SENT.clone();
        for k in merged_members(j) { by_builder(k).update(&mut z, 0.5); }
        let mut x = SENT.clone(); m.update(&mut x, 0.5);
        if x.bits() != z.bits() { tally.miss(json!({"merged": j, "class": "merged-order", "members": merged_members(j)})); }
    }
    let _ = pmap;
    let _: Option<Value> = None;
    println!("{}", tally.report());
}
