//! animator! blocks (C16): macro-built animator vs the StateAnimatorBuilder twin (bit for bit, after
//! every operation of the generated history) and vs the specification's predicted observations.
use harness::anim::{st, st_no, S4};
use harness::common::agrees;
use harness::tl::Tally;
use mina::prelude::*;
use serde_json::json;

#[derive(Animate, Clone, Debug, Default, PartialEq)]
pub struct G4 { #[animate] pub x: f32, #[animate] pub y: f32, #[animate] pub n: i32, #[animate] pub m: i16, pub k: f32 }
impl G4 {
    fn get(&self, p: usize) -> f64 { match p { 1 => self.x as f64, 2 => self.y as f64, 3 => self.n as f64, _ => self.m as f64 } }
    fn bits(&self) -> [i64; 5] { [self.x.to_bits() as i64, self.y.to_bits() as i64, self.n as i64, self.m as i64, self.k.to_bits() as i64] }
}

include!(concat!(env!("VERIF_GEN_DIR"), "/blocks.rs"));

fn main() {
    std::panic::set_hook(Box::new(|_| {}));
    let args: Vec<String> = std::env::args().collect();
    let lines = harness::read_lines(&args[1]);
    assert_eq!(lines.len(), N, "generated program and REPLAY file differ");
    let mut tally = Tally::new();
    for i in 0..N {
        let line = &lines[i];
        tally.lines += 1;
        let r = std::panic::catch_unwind(|| {
            let mut t = Tally::new();
            let (mut m, mut b) = (by_macro(i), by_builder(i));
            let ops = line["ops"].as_array().unwrap();
            let obs = line["obs"].as_array().unwrap();
            let ctx = |class: &str, step: usize, extra: serde_json::Value| json!({"line": i, "class": class, "step": step, "detail": extra, "block": line["block"], "history": &ops[..step]});
            if m.current_state() != b.current_state() || m.current_values().bits() != b.current_values().bits() { t.miss(ctx("twin-initial", 0, json!({"macro": [st_no(m.current_state())], "builder": [st_no(b.current_state())]}))); }
            if st_no(m.current_state()) != line["s0"].as_i64().unwrap() { t.miss(ctx("spec-initial-state", 0, json!({"got": st_no(m.current_state()), "expected": line["s0"]}))); }
            for p in 1..=4usize { if m.current_values().get(p) != line["v0"][p - 1].as_i64().unwrap() as f64 { t.miss(ctx("spec-initial-values", 0, json!({"prop": p, "got": m.current_values().get(p), "expected": line["v0"][p - 1]}))); } }
            for (k, (op, ob)) in ops.iter().zip(obs.iter()).enumerate() {
                t.evals += 1;
                if op["op"] == "adv" { let dt = op["dt"].as_i64().unwrap() as f32 * 0.125; m.advance(dt); b.advance(dt); }
                else { let s: S4 = st(op["st"].as_i64().unwrap()); m.set_state(&s); b.set_state(&s); }
                // macro == builder twin, bit for bit
                if m.current_state() != b.current_state() || m.is_ended() != b.is_ended() || m.current_values().bits() != b.current_values().bits() || m.verif_snapshot() != b.verif_snapshot() {
                    t.miss(ctx("twin", k + 1, json!({"macro": m.current_values().bits(), "builder": b.current_values().bits()}))); break;
                }
                // macro == the specification's reading of the block (only inside the model's domain)
                if !line["indomain"].as_bool().unwrap_or(true) { continue; }
                if st_no(m.current_state()) != ob["st"].as_i64().unwrap() || m.is_ended() != ob["ended"].as_bool().unwrap() {
                    t.miss(ctx("spec-state", k + 1, json!({"got": [st_no(m.current_state()), m.is_ended() as i64], "expected": [ob["st"], ob["ended"]]}))); break;
                }
                for (pi, term) in ob["vals"].as_array().unwrap().iter().enumerate() {
                    if !agrees(term, m.current_values().get(pi + 1), pi >= 2, f64::NAN) {
                        t.miss(ctx("spec-values", k + 1, json!({"prop": pi + 1, "got": m.current_values().get(pi + 1), "expected": term})));
                    }
                }
            }
            t
        });
        match r { Ok(t) => tally.absorb(t), Err(_) => tally.miss(json!({"line": i, "class": "panic", "block": line["block"]})) }
    }
    println!("{}", tally.report());
}
