//! derive(Animate) shapes (C17): every generated struct is compiled with the real derive; its
//! timeline is evaluated on the (remote) target and compared with the specification.
use harness::common::{agrees_any, repeat_of};
use harness::tl::Tally;
use mina::prelude::*;
use serde_json::{json, Value};

include!(concat!(env!("VERIF_GEN_DIR"), "/shapes.rs"));

#[allow(clippy::too_many_arguments)]
pub fn run_shape<Tl: Timeline>(line: &Value, t: &mut Tally, i: usize, tl: &Tl, copy_tl: &Tl, over_tl: &Tl, over_slot: usize, sentinel: &dyn Fn() -> Tl::Target, source: &Tl::Target,
                               get: &dyn Fn(&Tl::Target, usize) -> f64) {
    t.lines += 1;
    let tm = &line["tm"];
    let (cyc, del, rep) = (tm["cyc"].as_i64().unwrap(), tm["del"].as_i64().unwrap(), tm["rep"].as_i64().unwrap());
    let exp_total = if rep == -2 { f32::INFINITY } else if rep == -3 { del as f32 * 0.125 + cyc as f32 * 0.125 * 4294967296.0f32 }
                    else { del as f32 * 0.125 + cyc as f32 * 0.125 * (rep.max(0) + 1) as f32 };
    if tl.delay() != del as f32 * 0.125 || tl.cycle_duration() != Some(cyc as f32 * 0.125) || tl.repeat() != repeat_of(rep) || tl.duration() != exp_total {
        t.miss(json!({"line": i, "class": "meta", "shape": line["shape"]}));
    }
    let animated: Vec<usize> = line["animated"].as_array().unwrap().iter().map(|x| x.as_u64().unwrap() as usize).collect();
    let s = sentinel();
    for (ti, exp) in line["evals"].as_array().unwrap().iter().enumerate() {
        let mut target = sentinel();
        tl.update(&mut target, ti as f32 * 0.125);
        for p in 1..=6usize {
            let got = get(&target, p);
            if got.is_nan() { continue; }                       // slot absent from this shape
            t.evals += 1;
            if !agrees_any(&exp[p - 1], got, p >= 4, get(&s, p)) {
                t.miss(json!({"line": i, "class": if animated.contains(&p) { "value" } else { "excluded-field-touched" }, "t": ti, "slot": p, "got": got, "expected": exp[p - 1], "shape": line["shape"], "animated": animated}));
            }
        }
    }
    // keyframe_from copies exactly the animated fields
    let mut target = sentinel();
    copy_tl.update(&mut target, 1.0);
    for p in 1..=6usize {
        let got = get(&target, p);
        if got.is_nan() { continue; }
        let want = if animated.contains(&p) { get(source, p) } else { get(&s, p) };
        t.evals += 1;
        if got != want { t.miss(json!({"line": i, "class": "keyframe_from", "slot": p, "got": got, "expected": want, "shape": line["shape"], "animated": animated})); }
    }
    // a setter called after keyframe_from (twice) overrides the copied value: the last write wins
    let mut target = sentinel();
    over_tl.update(&mut target, 1.0);
    for p in 1..=6usize {
        let got = get(&target, p);
        if got.is_nan() { continue; }
        let want = if p == over_slot { 78.0 } else if animated.contains(&p) { get(source, p) } else { get(&s, p) };
        t.evals += 1;
        if got != want { t.miss(json!({"line": i, "class": "setter-after-keyframe_from", "slot": p, "got": got, "expected": want, "shape": line["shape"], "animated": animated})); }
    }
}

fn main() {
    std::panic::set_hook(Box::new(|_| {}));
    let args: Vec<String> = std::env::args().collect();
    let lines = harness::read_lines(&args[1]);
    assert_eq!(lines.len(), N, "generated program and REPLAY file differ");
    let mut tally = Tally::new();
    run_all(&lines, &mut tally);
    println!("{}", tally.report());
}
