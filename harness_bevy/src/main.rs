//! Bevy harness: drives a real `App` with mina's plugin under a hand-driven clock and logs
//! every frame (leg B, `drive`); re-evaluates the real timelines at the points the
//! specification says the components were evaluated (`judge`).
use bevy::ecs::event::{Events, ManualEventReader};
use bevy::prelude::*;
use bevy_mina::prelude::*;
use mina::prelude::*;
use serde_json::{json, Value};
use std::io::{BufRead, Write};
use std::time::{Duration, Instant};

#[derive(Animate, Component, Clone, Debug, Default, PartialEq)]
struct A { x: f32, y: f32 }
#[derive(Animate, Component, Clone, Debug, Default, PartialEq)]
struct B { x: f32, y: f32 }
#[derive(Clone, Copy, Debug, Default, Eq, PartialEq, Hash)]
enum K { #[default] K1, K2, K3 }
fn key(i: i64) -> K { match i { 1 => K::K1, 2 => K::K2, 3 => K::K3, _ => panic!("key") } }
fn key_no(k: &K) -> i64 { match k { K::K1 => 1, K::K2 => 2, K::K3 => 3 } }

const TICK: f32 = 0.125;

/// Timeline pool shared by id between the trace (which carries delay/total in ticks) and the judge.
/// (cycle, delay, repeat (-1 none, n, -2 infinite), reverse, shape)
const POOL: [(i64, i64, i64, bool, u8); 12] = [
    (8, 0, -1, false, 0), (8, 4, -1, false, 1), (4, 2, 1, false, 0), (4, 0, -2, false, 2), (6, 3, 0, true, 1),
    (2, 0, 2, true, 2), (16, 8, -1, false, 3), (1, 0, -1, false, 0), (3, 1, 1, true, 3), (8, 0, -1, false, 4),
    (4, 4, -1, false, 5), (6, 2, 0, false, 4),
];
fn pool_total(i: usize) -> i64 { let (c, d, r, _, _) = POOL[i]; if r == -2 { 1_000_000_000 } else { d + c * (r.max(0) + 1) } }
fn rep(r: i64) -> Repeat { match r { -1 => Repeat::None, -2 => Repeat::Infinite, n => Repeat::Times(n as u32) } }

macro_rules! pool_single { ($T:ident, $id:expr) => {{
    let (c, d, r, rev, shape) = POOL[($id - 1) as usize];
    let b = $T::timeline().duration_seconds(c as f32 * TICK).delay_seconds(d as f32 * TICK).repeat(rep(r)).reverse(rev);
    match shape {
        0 => b.keyframe($T::keyframe(1.0).x(64.0)),
        1 => b.keyframe($T::keyframe(0.0).x(8.0).y(1.0)).keyframe($T::keyframe(1.0).x(40.0).y(5.0)),
        2 => b.default_easing(Easing::OutQuad).keyframe($T::keyframe(0.5).x(16.0)).keyframe($T::keyframe(1.0).x(-24.0)),
        3 => b.keyframe($T::keyframe(0.25).y(12.0)).keyframe($T::keyframe(0.75).x(30.0).easing(Easing::InOutCubic)).keyframe($T::keyframe(1.0).y(3.0)),
        5 => b.keyframe($T::keyframe(0.0).y(2.0)).keyframe($T::keyframe(1.0).y(20.0)),
        _ => b.keyframe($T::keyframe(0.0).x(100.0)).keyframe($T::keyframe(1.0).x(0.0)),
    }.build()
}}; }
/// Runs `$body` with `$tl` bound to pool timeline `$id`: a plain timeline for ids up to POOL.len(), a
/// MergedTimeline of two components with DIFFERENT delays for the ids after that.
macro_rules! pool_with { ($T:ident, $id:expr, $tl:ident => $body:expr) => {{
    let id = $id as i64;
    if id as usize <= POOL.len() { let $tl = pool_single!($T, id); $body }
    else { let (a, b) = MERGED[(id as usize) - POOL.len() - 1]; let $tl = MergedTimeline::of([pool_single!($T, a as i64), pool_single!($T, b as i64)]); $body }
}}; }
/// merged pool entries: pairs of single ids
const MERGED: [(usize, usize); 2] = [(1, 11), (12, 9)];
fn pool_del_tot(id: usize) -> (i64, i64) {
    if id <= POOL.len() { (POOL[id - 1].1, pool_total(id - 1)) }
    else { let (a, b) = MERGED[id - POOL.len() - 1]; (POOL[a - 1].1.min(POOL[b - 1].1), pool_total(a - 1).max(pool_total(b - 1))) }
}
const NPOOL: usize = 14;
/// What the target must hold once pool timeline `id` has ended (C18): the 100% values - for a reversing timeline the
/// ORIGINAL 0% values (the type's default where the shape has no 0% keyframe) - per property the shape animates.
/// Stated here from the shapes themselves, independently of Timeline::update.
fn terminal_single(id: usize) -> (Option<f32>, Option<f32>) {
    let (_, _, r, rev, shape) = POOL[id - 1];
    if r == -2 { return (None, None); }
    match (shape, rev) {
        (0, false) => (Some(64.0), None), (0, true) => (Some(0.0), None),
        (1, false) => (Some(40.0), Some(5.0)), (1, true) => (Some(8.0), Some(1.0)),
        (2, false) => (Some(-24.0), None), (2, true) => (Some(0.0), None),
        (3, false) => (Some(30.0), Some(3.0)), (3, true) => (Some(0.0), Some(0.0)),
        (5, false) => (None, Some(20.0)), (5, true) => (None, Some(2.0)),
        (_, false) => (Some(0.0), None), (_, true) => (Some(100.0), None),
    }
}
fn terminal(id: usize) -> (Option<f32>, Option<f32>) {
    if id <= POOL.len() { terminal_single(id) }
    else { let (a, b) = MERGED[id - POOL.len() - 1]; let (ta, tb) = (terminal_single(a), terminal_single(b)); (tb.0.or(ta.0), tb.1.or(ta.1)) }
}

struct Rng(u64);
impl Rng {
    fn next(&mut self) -> u64 { self.0 ^= self.0 << 13; self.0 ^= self.0 >> 7; self.0 ^= self.0 << 17; self.0 }
    fn below(&mut self, n: u64) -> u64 { self.next() % n }
}

fn st_no(s: AnimationState) -> i64 { match s { AnimationState::None => 0, AnimationState::Waiting => 1, AnimationState::Playing => 2, AnimationState::Ended => 3 } }
fn ticks(d: Duration) -> i64 { let n = d.as_nanos() as i64; assert!(n % 125_000_000 == 0, "position off the tick grid: {d:?}"); n / 125_000_000 }
fn bits(x: f32, y: f32) -> [i64; 2] { [x.to_bits() as i64, y.to_bits() as i64] }
const A0: (f32, f32) = (-3.0, -5.0);
const B0: (f32, f32) = (-7.0, -9.0);
const A20: (f32, f32) = (-11.0, -13.0);

/// One App with the main entity `e` (Animator<A>, optionally selector + chain, optionally B) and
/// optionally a second entity `e2` carrying only an Animator<A>, spawned before or after `e`.
struct WorldRun { app: App, e: Entity, e2: Option<Entity>, now: Instant, reader: ManualEventReader<AnimationStateChanged>, hassel: bool, hasb: bool }

fn new_world(cfg: &Value) -> WorldRun {
    let hassel = cfg["hassel"].as_bool().unwrap();
    let hasb = cfg["hasb"].as_bool().unwrap();
    let hase2 = cfg["hase2"].as_bool().unwrap_or(false);
    let e2first = cfg["e2first"].as_bool().unwrap_or(false);
    let mut app = App::new();
    app.insert_resource(Time::default());
    app.add_plugins(AnimationPlugin::<A>::new());
    if hasb { app.add_plugins(AnimationPlugin::<B>::new()); }
    if hassel { app.register_animation_key::<A, K>(); }
    let now = Instant::now();
    app.world.resource_mut::<Time>().update_with_instant(now);
    let spawn_e2 = |app: &mut App| -> Entity {
        let id = cfg["tlE2"].as_i64().unwrap_or(0);
        let an = if id == 0 { Animator::<A>::new() } else { pool_with!(A, id, tl => Animator::<A>::with_timeline(tl)) };
        if cfg["c2late"].as_bool().unwrap_or(false) { app.world.spawn(an).id() }      // the target component comes later
        else { app.world.spawn((A { x: A20.0, y: A20.1 }, an)).id() }
    };
    let mut e2 = None;
    if hase2 && e2first { e2 = Some(spawn_e2(&mut app)); }
    let e = {
        let mut ent = app.world.spawn(A { x: A0.0, y: A0.1 });
        let en_a = cfg["enA"].as_bool().unwrap();
        if hassel {
            let mut sb = AnimationSelectorBuilder::<K, A>::new().initial_key(key(cfg["key0"].as_i64().unwrap()));
            for (i, t) in cfg["keytl"].as_array().unwrap().iter().enumerate() {
                let id = t.as_i64().unwrap();
                if id != 0 { sb = pool_with!(A, id, tl => sb.add(key(i as i64 + 1), tl)); }
            }
            let mut cb = AnimationChainBuilder::<K>::new();
            for (i, n) in cfg["chain"].as_array().unwrap().iter().enumerate() {
                let n = n.as_i64().unwrap();
                if n != 0 { cb = cb.add(key(i as i64 + 1), key(n)); }
            }
            let an = if en_a { Animator::<A>::new() } else { Animator::<A>::new().as_disabled() };
            // a chain with the single entry k -> default key is written with the documented shorthand
            let entries: Vec<(usize, i64)> = cfg["chain"].as_array().unwrap().iter().enumerate().map(|(i, n)| (i, n.as_i64().unwrap())).filter(|e| e.1 != 0).collect();
            let chain = if entries.len() == 1 && entries[0].1 == 1 { AnimationChain::<K>::reset_after(key(entries[0].0 as i64 + 1)) } else { cb.build() };
            ent.insert((an, sb.build(), chain));
        } else {
            let id = cfg["tlA"].as_i64().unwrap();
            let an = if id == 0 { Animator::<A>::new() } else { pool_with!(A, id, tl => Animator::<A>::with_timeline(tl)) };
            ent.insert(if en_a { an } else { an.as_disabled() });
        }
        if hasb {
            let id = cfg["tlB"].as_i64().unwrap();
            let an = if id == 0 { Animator::<B>::new() } else { pool_with!(B, id, tl => Animator::<B>::with_timeline(tl)) };
            ent.insert((B { x: B0.0, y: B0.1 }, an));
        }
        ent.id()
    };
    if hase2 && !e2first { e2 = Some(spawn_e2(&mut app)); }
    WorldRun { app, e, e2, now, reader: ManualEventReader::default(), hassel, hasb }
}

impl WorldRun {
    fn apply_op(&mut self, op: &Value) {
        let t = op["T"].as_str().unwrap_or("A");
        let e = if t == "A2" { self.e2.expect("second entity") } else { self.e };
        match op["op"].as_str().unwrap() {
            "key" => { self.app.world.get_mut::<AnimationSelector<K, A>>(e).unwrap().timeline_key = key(op["k"].as_i64().unwrap()); }
            "enable" => { let b = op["b"].as_bool().unwrap();
                if t == "B" { self.app.world.get_mut::<Animator<B>>(e).unwrap().enabled = b; } else { self.app.world.get_mut::<Animator<A>>(e).unwrap().enabled = b; } }
            "reset" => { if t == "B" { self.app.world.get_mut::<Animator<B>>(e).unwrap().reset(); } else { self.app.world.get_mut::<Animator<A>>(e).unwrap().reset(); } }
            "settl" => { let id = op["id"].as_i64().unwrap();
                if t == "B" { pool_with!(B, id, tl => self.app.world.get_mut::<Animator<B>>(e).unwrap().set_timeline(tl)); }
                else { pool_with!(A, id, tl => self.app.world.get_mut::<Animator<A>>(e).unwrap().set_timeline(tl)); } }
            "rmcomp" => { self.app.world.entity_mut(self.e2.unwrap()).remove::<A>(); }
            "addcomp" => { self.app.world.entity_mut(self.e2.unwrap()).insert(A { x: A20.0, y: A20.1 }); }
            "pause" => { let mut t = self.app.world.resource_mut::<Time>(); if op["b"].as_bool().unwrap() { t.pause(); } else { t.unpause(); } }
            "speed" => { self.app.world.resource_mut::<Time>().set_relative_speed(op["x"].as_i64().unwrap() as f32); }
            "setpos" => { let p = Duration::from_secs_f32(op["p"].as_i64().unwrap() as f32 * TICK);
                if t == "B" { self.app.world.get_mut::<Animator<B>>(e).unwrap().timeline_position = p; } else { self.app.world.get_mut::<Animator<A>>(e).unwrap().timeline_position = p; } }
            o => panic!("op {o}"),
        }
    }
    fn frame(&mut self, dt: i64) -> Value {
        self.now += Duration::from_secs_f32(dt as f32 * TICK);
        let n = self.now;
        self.app.world.resource_mut::<Time>().update_with_instant(n);
        // the frame's delta is what Time::delta() reports (it differs from the raw wall-clock step when the
        // clock is paused or runs at a relative speed other than 1)
        let dt = ticks(self.app.world.resource::<Time>().delta());
        self.app.update();
        let w = &self.app.world;
        let a = w.get::<Animator<A>>(self.e).unwrap();
        let ca = w.get::<A>(self.e).unwrap();
        let mut rec = json!({"ev": "frame", "dt": dt, "A": [st_no(a.state()), ticks(a.timeline_position), a.enabled as i64], "compA": bits(ca.x, ca.y)});
        if self.hasb {
            let b = w.get::<Animator<B>>(self.e).unwrap();
            let cb = w.get::<B>(self.e).unwrap();
            rec["B"] = json!([st_no(b.state()), ticks(b.timeline_position), b.enabled as i64]);
            rec["compB"] = json!(bits(cb.x, cb.y));
        } else { rec["B"] = json!([0, 0, 1]); rec["compB"] = json!([0, 0]); }
        if let Some(e2) = self.e2 {
            let a2 = w.get::<Animator<A>>(e2).unwrap();
            rec["A2"] = json!([st_no(a2.state()), ticks(a2.timeline_position), a2.enabled as i64]);
            rec["compA2"] = match w.get::<A>(e2) { Some(c2) => json!(bits(c2.x, c2.y)), None => json!([0, 0]) };
        } else { rec["A2"] = json!([0, 0, 1]); rec["compA2"] = json!([0, 0]); }
        rec["key"] = json!(if self.hassel { key_no(&w.get::<AnimationSelector<K, A>>(self.e).unwrap().timeline_key) } else { 0 });
        let events = w.resource::<Events<AnimationStateChanged>>();
        let (mut out, mut out2) = (vec![], vec![]);
        for ev in self.reader.iter(events) { if ev.entity == self.e { out.push(st_no(ev.state)); } else if Some(ev.entity) == self.e2 { out2.push(st_no(ev.state)); } }
        rec["out"] = json!(out);
        rec["out2"] = json!(out2);
        rec
    }
}

fn panic_frame(dt: i64) -> Value {
    json!({"ev":"frame","dt":dt,"A":[-1,-1,-1],"B":[-1,-1,-1],"A2":[-1,-1,-1],"compA":[0,0],"compB":[0,0],"compA2":[0,0],"key":-1,"out":[],"out2":[],"panic":1})
}

fn world_cfg(rng: &mut Rng, wi: u64) -> Value {
    let np = NPOOL as u64;
    let tl: Vec<Value> = (1..=NPOOL).map(|i| { let (d, t) = pool_del_tot(i); json!([d, t]) }).collect();
    let hassel = wi % 2 == 1;
    let hasb = hassel && rng.below(3) != 0;
    let hase2 = rng.below(3) == 0;
    let keytl: Vec<i64> = (0..3).map(|_| if rng.below(5) == 0 { 0 } else { 1 + rng.below(np) as i64 }).collect();
    let chain: Vec<i64> = (0..3).map(|_| if rng.below(2) == 0 { 0 } else { 1 + rng.below(3) as i64 }).collect();
    let tl_a = if rng.below(8) == 0 { 0 } else { 1 + rng.below(np) as i64 };
    let tl_b = 1 + rng.below(np) as i64;
    let tl_e2 = if rng.below(3) == 0 { 0 } else { 1 + rng.below(np) as i64 };
    json!({"ev": "world", "tl": tl, "keytl": keytl, "chain": chain, "hassel": hassel, "hasb": hasb, "hase2": hase2, "e2first": rng.below(2) == 0,
           "c2late": hase2 && rng.below(3) == 0,
           "tlA": tl_a, "tlB": tl_b, "tlE2": tl_e2, "key0": 1 + rng.below(3) as i64, "enA": rng.below(6) != 0})
}

fn drive(seed: u64, nworlds: u64, nframes: u64, out: &str) -> Value {
    let mut rng = Rng(seed.wrapping_mul(0x9E3779B97F4A7C15) | 1);
    let mut f = std::io::BufWriter::new(std::fs::File::create(out).unwrap());
    let (mut frames, mut ops) = (0u64, 0u64);
    let mut sample = vec![];
    for wi in 0..nworlds {
        let cfg = world_cfg(&mut rng, wi);
        writeln!(f, "{}", cfg).unwrap();
        let mut w = new_world(&cfg);
        let (hassel, hasb, hase2) = (w.hassel, w.hasb, w.e2.is_some());
        for _ in 0..nframes {
            // user operations between frames
            if rng.below(4) == 0 {
                let np = NPOOL as u64;
                let pos = [0i64, 2, 7, 30][rng.below(4) as usize];
                let has_c2 = w.e2.map(|e| w.app.world.get::<A>(e).is_some()).unwrap_or(false);
                let op = match rng.below(13) {
                    11 | 12 if hase2 => json!({"ev":"op","op": if has_c2 { "rmcomp" } else { "addcomp" }}),
                    9 => json!({"ev":"op","op":"pause","b": rng.below(2) == 0}),
                    10 => json!({"ev":"op","op":"speed","x": 1 + rng.below(2)}),
                    0 => json!({"ev":"op","op":"enable","T":"A","b": rng.below(2) == 0}),
                    1 => json!({"ev":"op","op":"reset","T": if hasb && rng.below(2) == 0 { "B" } else { "A" }}),
                    2 if !hassel => json!({"ev":"op","op":"settl","T":"A","id": 1 + rng.below(np)}),
                    2 | 3 if hassel => json!({"ev":"op","op":"key","k": 1 + rng.below(3)}),
                    3 | 4 if hasb => json!({"ev":"op","op": if rng.below(2) == 0 { "settl" } else { "enable" },"T":"B","id": 1 + rng.below(np),"b": rng.below(2) == 0}),
                    5 => json!({"ev":"op","op":"setpos","T":"A","p": pos}),
                    6 if hase2 => json!({"ev":"op","op":"settl","T":"A2","id": 1 + rng.below(np)}),
                    7 if hase2 => json!({"ev":"op","op": if rng.below(2) == 0 { "reset" } else { "enable" },"T":"A2","b": rng.below(2) == 0}),
                    8 if hassel => json!({"ev":"op","op":"key","k": 1 + rng.below(3)}),
                    _ => json!({"ev":"op","op":"enable","T":"A","b": true}),
                };
                w.apply_op(&op);
                writeln!(f, "{}", op).unwrap();
                ops += 1;
            }
            // (rarely one frame of 2^24 ticks = 2^21 s: an f32 clock would absorb the fine frames that follow)
            let dt = if rng.below(40) == 0 { 16777216 } else { [0, 1, 1, 2, 3, 3, 8, 1000][rng.below(8) as usize] };
            // a panic inside the App is an observation (rejected by the trace spec), not a harness failure
            let rec = match std::panic::catch_unwind(std::panic::AssertUnwindSafe(|| w.frame(dt))) {
                Ok(r) => r,
                Err(_) => { writeln!(f, "{}", panic_frame(dt)).unwrap(); frames += 1; break; }
            };
            if sample.len() < 4 && frames % 7 == 3 { sample.push(json!({"world": cfg, "frame": rec})); }
            writeln!(f, "{}", rec).unwrap();
            frames += 1;
        }
    }
    f.flush().unwrap();
    json!({"worlds": nworlds, "frames": frames, "ops": ops, "samples": sample})
}

/// Leg A: runs TLC-enumerated input schedules (REPLAY lines of MC_Bevy) in real Apps and logs them.
fn drive_file(inp: &str, out: &str) -> Value {
    let mut f = std::io::BufWriter::new(std::fs::File::create(out).unwrap());
    let (mut worlds, mut frames, mut ops) = (0u64, 0u64, 0u64);
    for l in std::io::BufReader::new(std::fs::File::open(inp).unwrap()).lines() {
        let l = l.unwrap();
        let Some(rest) = l.trim().strip_prefix("<<\"REPLAY\", ") else { continue };
        let inner: String = serde_json::from_str(rest.strip_suffix(">>").unwrap()).unwrap();
        let v: Value = serde_json::from_str(&inner).unwrap();
        let c = &v["c"];
        let tl: Vec<Value> = c["c"]["TL"].as_array().unwrap().iter().map(|t| json!([t["del"], t["tot"]])).collect();
        assert_eq!(tl.len(), NPOOL, "spec timeline table differs from the harness pool");
        for (i, t) in tl.iter().enumerate() { let (d, tt) = pool_del_tot(i + 1); assert!(t[0] == d && t[1] == tt, "spec timeline table differs from the harness pool at {}", i + 1); }
        let cfg = json!({"ev": "world", "tl": tl, "keytl": c["c"]["KeyTl"], "chain": c["c"]["ChainNext"], "hassel": c["c"]["HasSel"], "hasb": c["c"]["HasB"],
                         "hase2": c["c"]["HasE2"], "c2late": c["c"]["C2Late"], "e2first": c["e2first"], "tlA": c["tlA"], "tlB": c["tlB"], "tlE2": c["tlE2"], "key0": c["key0"], "enA": true});
        writeln!(f, "{}", cfg).unwrap();
        worlds += 1;
        let mut w = new_world(&cfg);
        for op in v["ops"].as_array().unwrap() {
            if op["ev"] == "op" { w.apply_op(op); writeln!(f, "{}", op).unwrap(); ops += 1; }
            else {
                let dt = op["dt"].as_i64().unwrap();
                match std::panic::catch_unwind(std::panic::AssertUnwindSafe(|| w.frame(dt))) {
                    Ok(rec) => { writeln!(f, "{}", rec).unwrap(); frames += 1; }
                    Err(_) => { writeln!(f, "{}", panic_frame(dt)).unwrap(); frames += 1; break; }
                }
            }
        }
    }
    f.flush().unwrap();
    json!({"worlds": worlds, "frames": frames, "ops": ops, "samples": []})
}

fn f2(b: [i64; 2]) -> (f32, f32) { (f32::from_bits(b[0] as u32), f32::from_bits(b[1] as u32)) }
fn arr2(v: &Value) -> [i64; 2] { [v[0].as_i64().unwrap(), v[1].as_i64().unwrap()] }

/// expected component bits after one frame, given the predicted evaluation identity
fn expect_a(c: &Value, prev_c: &Value, prev: [i64; 2], got: [i64; 2], hist: &[[i64; 2]], evals: &mut u64) -> [i64; 2] {
    if c[0] == "any" { return got; }                 // the property leaves this frame's component open
    if c[0] == "absent" { return [0, 0]; }           // no target component on the entity
    if c[0] == "init" && c.as_array().unwrap().len() == 2 { return if c == prev_c { prev } else { bits(A20.0, A20.1) }; }   // freshly inserted
    if c == prev_c { return prev; }                  // no evaluation since: unchanged
    let a = c.as_array().unwrap();
    let (px, py) = f2(prev);
    let mut v = A { x: px, y: py };
    let ovf = a[2].as_i64().unwrap();
    *evals += 1;
    pool_with!(A, a[1].as_i64().unwrap(), tl => {
        let mut tl = tl;
        if ovf >= 0 { let (sx, sy) = f2(hist[(ovf - 1) as usize]); tl.start_with(&A { x: sx, y: sy }); }
        tl.update(&mut v, a[3].as_i64().unwrap() as f32 * TICK);
    });
    // at or after the end the expectation is the terminal values stated with the pool, not the evaluation
    let id = a[1].as_i64().unwrap() as usize;
    if a[3].as_i64().unwrap() >= pool_del_tot(id).1 {
        let (tx, ty) = terminal(id);
        if let Some(x) = tx { v.x = x; }
        if let Some(y) = ty { v.y = y; }
    }
    bits(v.x, v.y)
}

/// Re-evaluates the real timelines at the evaluation identities predicted by the surviving
/// behaviours of Trace_Bevy (PRED lines) and compares with the logged component bits.
fn judge(trace: &str, preds: &str) -> Value {
    let recs: Vec<Value> = std::io::BufReader::new(std::fs::File::open(trace).unwrap()).lines().map(|l| serde_json::from_str(&l.unwrap()).unwrap()).collect();
    let mut worlds: Vec<(Value, Vec<Value>)> = vec![];
    for r in recs { if r["ev"] == "world" { worlds.push((r, vec![])); } else if r["ev"] == "frame" || r["ev"] == "op" { worlds.last_mut().unwrap().1.push(r); } }
    let mut by_world: std::collections::BTreeMap<u64, Vec<Value>> = Default::default();
    for l in std::io::BufReader::new(std::fs::File::open(preds).unwrap()).lines() {
        let l = l.unwrap();
        if let Some(rest) = l.trim().strip_prefix("<<\"PRED\", ") {
            let inner: String = serde_json::from_str(rest.strip_suffix(">>").unwrap()).unwrap();
            let v: Value = serde_json::from_str(&inner).unwrap();
            by_world.entry(v["world"].as_u64().unwrap()).or_default().push(v);
        }
    }
    let (mut checked, mut evals) = (0u64, 0u64);
    let mut mism = vec![];
    for (wi, (cfg, frames)) in worlds.iter().enumerate() {
        let cands = by_world.get(&(wi as u64 + 1)).cloned().unwrap_or_default();
        if cands.is_empty() { mism.push(json!({"world": wi + 1, "what": "no surviving behaviour predicted this world"})); continue; }
        let (hasb, hase2) = (cfg["hasb"].as_bool().unwrap(), cfg["hase2"].as_bool().unwrap_or(false));
        let mut first_fail = None;
        let mut ok_any = false;
        for cand in &cands {
            let pred = cand["pred"].as_array().unwrap();
            let mut fail = None;
            let (mut pa, mut pb, mut p2) = (bits(A0.0, A0.1), bits(B0.0, B0.1), if cfg["c2late"].as_bool().unwrap_or(false) { [0, 0] } else { bits(A20.0, A20.1) });
            let mut hist_a = vec![pa]; // hist_a[f] = component A before frame f+1 (= after frame f)
            let (mut prev_ca, mut prev_cb, mut prev_c2) = (json!(["init"]), json!(["init"]), json!(["init"]));
            let mut fi = 0usize;
            for fr in frames.iter() {
                if fr["ev"] == "op" {
                    // the second entity's target component removed / inserted between frames: what the next
                    // evaluation starts from is the inserted value (nothing while absent)
                    if fr["op"] == "addcomp" { p2 = bits(A20.0, A20.1); } else if fr["op"] == "rmcomp" { p2 = [0, 0]; }
                    continue;
                }
                let (ca, cb, c2) = (&pred[fi]["A"], &pred[fi]["B"], &pred[fi]["A2"]);
                let (got_a, got_b, got_2) = (arr2(&fr["compA"]), arr2(&fr["compB"]), arr2(&fr["compA2"]));
                let exp_a = expect_a(ca, &prev_ca, pa, got_a, &hist_a, &mut evals);
                let mut exp_b = pb;
                if cb[0] == "any" { exp_b = got_b; }
                else if hasb && *cb != prev_cb {
                    let c = cb.as_array().unwrap();
                    let (px, py) = f2(pb);
                    let mut v = B { x: px, y: py };
                    pool_with!(B, c[1].as_i64().unwrap(), tl => tl.update(&mut v, c[3].as_i64().unwrap() as f32 * TICK));
                    if c[3].as_i64().unwrap() >= pool_del_tot(c[1].as_i64().unwrap() as usize).1 {
                        let (tx, ty) = terminal(c[1].as_i64().unwrap() as usize);
                        if let Some(x) = tx { v.x = x; }
                        if let Some(y) = ty { v.y = y; }
                    }
                    exp_b = bits(v.x, v.y); evals += 1;
                }
                let exp_2 = if hase2 { expect_a(c2, &prev_c2, p2, got_2, &[], &mut evals) } else { got_2 };
                if exp_a != got_a || (hasb && exp_b != got_b) || exp_2 != got_2 {
                    fail = Some(json!({"world": wi + 1, "frame": fi + 1, "cfg": cfg, "ord": cand["ord"], "predA": ca, "predB": cb, "predA2": c2,
                        "expA": exp_a, "gotA": got_a, "expB": exp_b, "gotB": got_b, "expA2": exp_2, "gotA2": got_2, "frame_rec": fr}));
                    break;
                }
                pa = got_a; pb = got_b; p2 = got_2; hist_a.push(pa); prev_ca = ca.clone(); prev_cb = cb.clone(); prev_c2 = c2.clone();
                checked += 1; fi += 1;
            }
            if fail.is_none() { ok_any = true; break; } else if first_fail.is_none() { first_fail = fail; }
        }
        if !ok_any { mism.push(first_fail.unwrap()); }
    }
    json!({"worlds": worlds.len(), "frames_checked": checked, "timeline_evaluations": evals, "mismatches": mism.len(), "first": mism.into_iter().take(5).collect::<Vec<_>>()})
}

fn main() {
    let args: Vec<String> = std::env::args().collect();
    match args.get(1).map(|s| s.as_str()).unwrap_or("") {
        "drive" => println!("{}", drive(args[2].parse().unwrap(), args[3].parse().unwrap(), args[4].parse().unwrap(), &args[5])),
        "drive-file" => println!("{}", drive_file(&args[2], &args[3])),
        "judge" => println!("{}", judge(&args[2], &args[3])),
        _ => { eprintln!("usage: harness_bevy drive <seed> <worlds> <frames> <out> | drive-file <replay> <out> | judge <trace> <tlc-output>"); std::process::exit(2); }
    }
}
