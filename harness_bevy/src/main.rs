fn main() {}
