//! Bevy harness: drives a real `App` with mina's plugin under a hand-driven clock and logs
//! every frame (leg B, `drive`); re-evaluates the real timelines at the points the
//! specification says the components were evaluated (`judge`).
use bevy::ecs::event::{Events, ManualEventReader};
use bevy::prelude::*;
use bevy_mina::prelude::*;
use mina::prelude::*;
use serde_json::{json, Value};
use std::io::{BufRead, Write};
use std::time::{Duration, Instant};

#[derive(Animate, Component, Clone, Debug, Default, PartialEq)]
struct A { x: f32, y: f32 }
#[derive(Animate, Component, Clone, Debug, Default, PartialEq)]
struct B { x: f32, y: f32 }
#[derive(Clone, Copy, Debug, Default, Eq, PartialEq, Hash)]
enum K { #[default] K1, K2, K3 }
fn key(i: i64) -> K { match i { 1 => K::K1, 2 => K::K2, 3 => K::K3, _ => panic!("key") } }
fn key_no(k: &K) -> i64 { match k { K::K1 => 1, K::K2 => 2, K::K3 => 3 } }

const TICK: f32 = 0.125;

/// Timeline pool shared by id between the trace (which carries delay/total in ticks) and the judge.
/// (cycle, delay, repeat (-1 none, n, -2 infinite), reverse, shape)
const POOL: [(i64, i64, i64, bool, u8); 10] = [
    (8, 0, -1, false, 0), (8, 4, -1, false, 1), (4, 2, 1, false, 0), (4, 0, -2, false, 2), (6, 3, 0, true, 1),
    (2, 0, 2, true, 2), (16, 8, -1, false, 3), (1, 0, -1, false, 0), (3, 1, 1, true, 3), (8, 0, -1, false, 4),
];
fn pool_total(i: usize) -> i64 { let (c, d, r, _, _) = POOL[i]; if r == -2 { 1_000_000_000 } else { d + c * (r.max(0) + 1) } }
fn rep(r: i64) -> Repeat { match r { -1 => Repeat::None, -2 => Repeat::Infinite, n => Repeat::Times(n as u32) } }

macro_rules! pool_tl { ($T:ident, $id:expr) => {{
    let (c, d, r, rev, shape) = POOL[($id - 1) as usize];
    let b = $T::timeline().duration_seconds(c as f32 * TICK).delay_seconds(d as f32 * TICK).repeat(rep(r)).reverse(rev);
    match shape {
        0 => b.keyframe($T::keyframe(1.0).x(64.0)),
        1 => b.keyframe($T::keyframe(0.0).x(8.0).y(1.0)).keyframe($T::keyframe(1.0).x(40.0).y(5.0)),
        2 => b.default_easing(Easing::OutQuad).keyframe($T::keyframe(0.5).x(16.0)).keyframe($T::keyframe(1.0).x(-24.0)),
        3 => b.keyframe($T::keyframe(0.25).y(12.0)).keyframe($T::keyframe(0.75).x(30.0).easing(Easing::InOutCubic)).keyframe($T::keyframe(1.0).y(3.0)),
        _ => b.keyframe($T::keyframe(0.0).x(100.0)).keyframe($T::keyframe(1.0).x(0.0)),
    }.build()
}}; }

struct Rng(u64);
impl Rng {
    fn next(&mut self) -> u64 { self.0 ^= self.0 << 13; self.0 ^= self.0 >> 7; self.0 ^= self.0 << 17; self.0 }
    fn below(&mut self, n: u64) -> u64 { self.next() % n }
}

fn st_no(s: AnimationState) -> i64 { match s { AnimationState::None => 0, AnimationState::Waiting => 1, AnimationState::Playing => 2, AnimationState::Ended => 3 } }
fn ticks(d: Duration) -> i64 { let n = d.as_nanos() as i64; assert!(n % 125_000_000 == 0, "position off the tick grid: {d:?}"); n / 125_000_000 }
fn bits(x: f32, y: f32) -> [i64; 2] { [x.to_bits() as i64, y.to_bits() as i64] }

struct WorldRun { app: App, e: Entity, now: Instant, reader: ManualEventReader<AnimationStateChanged>, hassel: bool, hasb: bool }

fn new_world(cfg: &Value) -> WorldRun {
    let hassel = cfg["hassel"].as_bool().unwrap();
    let hasb = cfg["hasb"].as_bool().unwrap();
    let mut app = App::new();
    app.insert_resource(Time::default());
    app.add_plugins(AnimationPlugin::<A>::new());
    if hasb { app.add_plugins(AnimationPlugin::<B>::new()); }
    if hassel { app.register_animation_key::<A, K>(); }
    let now = Instant::now();
    app.world.resource_mut::<Time>().update_with_instant(now);
    let a0 = A { x: -3.0, y: -5.0 };
    let mut ent = app.world.spawn(a0);
    let en_a = cfg["enA"].as_bool().unwrap();
    if hassel {
        let mut sb = AnimationSelectorBuilder::<K, A>::new().initial_key(key(cfg["key0"].as_i64().unwrap()));
        for (i, t) in cfg["keytl"].as_array().unwrap().iter().enumerate() {
            let id = t.as_i64().unwrap();
            if id != 0 { sb = sb.add(key(i as i64 + 1), pool_tl!(A, id)); }
        }
        let mut cb = AnimationChainBuilder::<K>::new();
        for (i, n) in cfg["chain"].as_array().unwrap().iter().enumerate() {
            let n = n.as_i64().unwrap();
            if n != 0 { cb = cb.add(key(i as i64 + 1), key(n)); }
        }
        let an = if en_a { Animator::<A>::new() } else { Animator::<A>::new().as_disabled() };
        ent.insert((an, sb.build(), cb.build()));
    } else {
        let id = cfg["tlA"].as_i64().unwrap();
        let an = if id == 0 { Animator::<A>::new() } else { Animator::<A>::with_timeline(pool_tl!(A, id)) };
        ent.insert(if en_a { an } else { an.as_disabled() });
    }
    if hasb {
        let id = cfg["tlB"].as_i64().unwrap();
        ent.insert((B { x: -7.0, y: -9.0 }, if id == 0 { Animator::<B>::new() } else { Animator::<B>::with_timeline(pool_tl!(B, id)) }));
    }
    let e = ent.id();
    WorldRun { app, e, now, reader: ManualEventReader::default(), hassel, hasb }
}

impl WorldRun {
    fn apply_op(&mut self, op: &Value) {
        let e = self.e;
        match op["op"].as_str().unwrap() {
            "key" => { self.app.world.get_mut::<AnimationSelector<K, A>>(e).unwrap().timeline_key = key(op["k"].as_i64().unwrap()); }
            "enable" => { let b = op["b"].as_bool().unwrap();
                if op["T"] == "A" { self.app.world.get_mut::<Animator<A>>(e).unwrap().enabled = b; } else { self.app.world.get_mut::<Animator<B>>(e).unwrap().enabled = b; } }
            "reset" => { if op["T"] == "A" { self.app.world.get_mut::<Animator<A>>(e).unwrap().reset(); } else { self.app.world.get_mut::<Animator<B>>(e).unwrap().reset(); } }
            "settl" => { let id = op["id"].as_i64().unwrap();
                if op["T"] == "A" { self.app.world.get_mut::<Animator<A>>(e).unwrap().set_timeline(pool_tl!(A, id)); }
                else { self.app.world.get_mut::<Animator<B>>(e).unwrap().set_timeline(pool_tl!(B, id)); } }
            "setpos" => { let p = Duration::from_secs_f32(op["p"].as_i64().unwrap() as f32 * TICK);
                if op["T"] == "A" { self.app.world.get_mut::<Animator<A>>(e).unwrap().timeline_position = p; } else { self.app.world.get_mut::<Animator<B>>(e).unwrap().timeline_position = p; } }
            o => panic!("op {o}"),
        }
    }
    fn frame(&mut self, dt: i64) -> Value {
        self.now += Duration::from_secs_f32(dt as f32 * TICK);
        let n = self.now;
        self.app.world.resource_mut::<Time>().update_with_instant(n);
        self.app.update();
        let w = &self.app.world;
        let a = w.get::<Animator<A>>(self.e).unwrap();
        let ca = w.get::<A>(self.e).unwrap();
        let mut rec = json!({"ev": "frame", "dt": dt, "A": [st_no(a.state()), ticks(a.timeline_position), a.enabled as i64], "compA": bits(ca.x, ca.y)});
        if self.hasb {
            let b = w.get::<Animator<B>>(self.e).unwrap();
            let cb = w.get::<B>(self.e).unwrap();
            rec["B"] = json!([st_no(b.state()), ticks(b.timeline_position), b.enabled as i64]);
            rec["compB"] = json!(bits(cb.x, cb.y));
        } else { rec["B"] = json!([0, 0, 1]); rec["compB"] = json!([0, 0]); }
        rec["key"] = json!(if self.hassel { key_no(&w.get::<AnimationSelector<K, A>>(self.e).unwrap().timeline_key) } else { 0 });
        let events = w.resource::<Events<AnimationStateChanged>>();
        let out: Vec<i64> = self.reader.iter(events).filter(|ev| ev.entity == self.e).map(|ev| st_no(ev.state)).collect();
        rec["out"] = json!(out);
        rec
    }
}

fn world_cfg(rng: &mut Rng, wi: u64) -> Value {
    let np = POOL.len() as u64;
    let tl: Vec<Value> = (0..POOL.len()).map(|i| json!([POOL[i].1, pool_total(i)])).collect();
    let hassel = wi % 2 == 1;
    let hasb = hassel && rng.below(3) != 0;
    let keytl: Vec<i64> = (0..3).map(|_| if rng.below(5) == 0 { 0 } else { 1 + rng.below(np) as i64 }).collect();
    let chain: Vec<i64> = (0..3).map(|_| if rng.below(2) == 0 { 0 } else { 1 + rng.below(3) as i64 }).collect();
    json!({"ev": "world", "tl": tl, "keytl": keytl, "chain": chain, "hassel": hassel, "hasb": hasb,
           "tlA": if rng.below(8) == 0 { 0 } else { 1 + rng.below(np) as i64 }, "tlB": 1 + rng.below(np) as i64,
           "key0": 1 + rng.below(3) as i64, "enA": rng.below(6) != 0})
}

fn drive(seed: u64, nworlds: u64, nframes: u64, out: &str) -> Value {
    let mut rng = Rng(seed.wrapping_mul(0x9E3779B97F4A7C15) | 1);
    let mut f = std::io::BufWriter::new(std::fs::File::create(out).unwrap());
    let (mut frames, mut ops) = (0u64, 0u64);
    let mut sample = vec![];
    for wi in 0..nworlds {
        let cfg = world_cfg(&mut rng, wi);
        writeln!(f, "{}", cfg).unwrap();
        let mut w = new_world(&cfg);
        let (hassel, hasb) = (w.hassel, w.hasb);
        for _ in 0..nframes {
            // user operations between frames
            if rng.below(4) == 0 {
                let op = match rng.below(if hassel { 7 } else { 6 }) {
                    0 => json!({"ev":"op","op":"enable","T":"A","b": rng.below(2) == 0}),
                    1 => json!({"ev":"op","op":"reset","T": if hasb && rng.below(2) == 0 { "B" } else { "A" }}),
                    2 if !hassel => json!({"ev":"op","op":"settl","T":"A","id": 1 + rng.below(POOL.len() as u64)}),
                    2 | 3 if hassel => json!({"ev":"op","op":"key","k": 1 + rng.below(3)}),
                    3 if hasb => json!({"ev":"op","op":"settl","T":"B","id": 1 + rng.below(POOL.len() as u64)}),
                    4 if hasb => json!({"ev":"op","op":"enable","T":"B","b": rng.below(2) == 0}),
                    5 if !hassel => { let p = [0i64, 2, 7, 30][rng.below(4) as usize]; json!({"ev":"op","op":"setpos","T":"A","p": p}) }
                    5 => json!({"ev":"op","op":"key","k": 1 + rng.below(3)}),
                    6 if hassel => { let p = [0i64, 2, 7, 30][rng.below(4) as usize]; json!({"ev":"op","op":"setpos","T":"A","p": p}) }
                    _ => json!({"ev":"op","op":"enable","T":"A","b": true}),
                };
                w.apply_op(&op);
                writeln!(f, "{}", op).unwrap();
                ops += 1;
            }
            let dt = [0, 1, 1, 2, 3, 3, 8, 1000][rng.below(8) as usize];
            // a panic inside the App is an observation (rejected by the trace spec), not a harness failure
            let rec = match std::panic::catch_unwind(std::panic::AssertUnwindSafe(|| w.frame(dt))) {
                Ok(r) => r,
                Err(_) => { writeln!(f, "{}", json!({"ev":"frame","dt":dt,"A":[-1,-1,-1],"B":[-1,-1,-1],"compA":[0,0],"compB":[0,0],"key":-1,"out":[],"panic":1})).unwrap(); frames += 1; break; }
            };
            if sample.len() < 4 && frames % 7 == 3 { sample.push(json!({"world": cfg, "frame": rec})); }
            writeln!(f, "{}", rec).unwrap();
            frames += 1;
        }
    }
    f.flush().unwrap();
    json!({"worlds": nworlds, "frames": frames, "ops": ops, "samples": sample})
}

/// Leg A: runs TLC-enumerated input schedules (REPLAY lines of MC_Bevy) in real Apps and logs them.
fn drive_file(inp: &str, out: &str) -> Value {
    let mut f = std::io::BufWriter::new(std::fs::File::create(out).unwrap());
    let (mut worlds, mut frames, mut ops) = (0u64, 0u64, 0u64);
    for l in std::io::BufReader::new(std::fs::File::open(inp).unwrap()).lines() {
        let l = l.unwrap();
        let Some(rest) = l.trim().strip_prefix("<<\"REPLAY\", ") else { continue };
        let inner: String = serde_json::from_str(rest.strip_suffix(">>").unwrap()).unwrap();
        let v: Value = serde_json::from_str(&inner).unwrap();
        let c = &v["c"];
        let tl: Vec<Value> = c["c"]["TL"].as_array().unwrap().iter().map(|t| json!([t["del"], t["tot"]])).collect();
        for (i, t) in tl.iter().enumerate() { assert!(t[0] == POOL[i].1 && t[1] == pool_total(i), "spec timeline table differs from the harness pool"); }
        let cfg = json!({"ev": "world", "tl": tl, "keytl": c["c"]["KeyTl"], "chain": c["c"]["ChainNext"], "hassel": c["c"]["HasSel"], "hasb": c["c"]["HasB"],
                         "tlA": c["tlA"], "tlB": c["tlB"], "key0": c["key0"], "enA": true});
        writeln!(f, "{}", cfg).unwrap();
        worlds += 1;
        let mut w = new_world(&cfg);
        for op in v["ops"].as_array().unwrap() {
            if op["ev"] == "op" { w.apply_op(op); writeln!(f, "{}", op).unwrap(); ops += 1; }
            else {
                let dt = op["dt"].as_i64().unwrap();
                match std::panic::catch_unwind(std::panic::AssertUnwindSafe(|| w.frame(dt))) {
                    Ok(rec) => { writeln!(f, "{}", rec).unwrap(); frames += 1; }
                    Err(_) => { writeln!(f, "{}", json!({"ev":"frame","dt":dt,"A":[-1,-1,-1],"B":[-1,-1,-1],"compA":[0,0],"compB":[0,0],"key":-1,"out":[],"panic":1})).unwrap(); frames += 1; break; }
                }
            }
        }
    }
    f.flush().unwrap();
    json!({"worlds": worlds, "frames": frames, "ops": ops, "samples": []})
}

/// Re-evaluates the real timelines at the evaluation identities predicted by the surviving
/// behaviours of Trace_Bevy (PRED lines) and compares with the logged component bits.
fn judge(trace: &str, preds: &str) -> Value {
    let recs: Vec<Value> = std::io::BufReader::new(std::fs::File::open(trace).unwrap()).lines().map(|l| serde_json::from_str(&l.unwrap()).unwrap()).collect();
    // split into worlds
    let mut worlds: Vec<(Value, Vec<Value>)> = vec![];
    for r in recs { if r["ev"] == "world" { worlds.push((r, vec![])); } else if r["ev"] == "frame" { worlds.last_mut().unwrap().1.push(r); } }
    let mut by_world: std::collections::BTreeMap<u64, Vec<Value>> = Default::default();
    for l in std::io::BufReader::new(std::fs::File::open(preds).unwrap()).lines() {
        let l = l.unwrap();
        if let Some(rest) = l.trim().strip_prefix("<<\"PRED\", ") {
            let inner: String = serde_json::from_str(rest.strip_suffix(">>").unwrap()).unwrap();
            let v: Value = serde_json::from_str(&inner).unwrap();
            by_world.entry(v["world"].as_u64().unwrap()).or_default().push(v);
        }
    }
    let (mut checked, mut evals) = (0u64, 0u64);
    let mut mism = vec![];
    for (wi, (cfg, frames)) in worlds.iter().enumerate() {
        let cands = by_world.get(&(wi as u64 + 1)).cloned().unwrap_or_default();
        if cands.is_empty() { mism.push(json!({"world": wi + 1, "what": "no surviving behaviour predicted this world"})); continue; }
        let mut first_fail = None;
        let mut ok_any = false;
        for cand in &cands {
            let pred = cand["pred"].as_array().unwrap();
            let mut fail = None;
            let (mut pa, mut pb) = ([(-3.0f32).to_bits() as i64, (-5.0f32).to_bits() as i64], [(-7.0f32).to_bits() as i64, (-9.0f32).to_bits() as i64]);
            let mut hist_a = vec![pa]; // hist_a[f] = component A before frame f+1 (= after frame f)
            let (mut prev_ca, mut prev_cb) = (json!(["init"]), json!(["init"]));
            for (fi, fr) in frames.iter().enumerate() {
                let (ca, cb) = (&pred[fi]["A"], &pred[fi]["B"]);
                let got_a = [fr["compA"][0].as_i64().unwrap(), fr["compA"][1].as_i64().unwrap()];
                let got_b = [fr["compB"][0].as_i64().unwrap(), fr["compB"][1].as_i64().unwrap()];
                let mut exp_a = pa;
                if ca[0] == "any" { exp_a = got_a; }            // the property leaves this frame's component open
                else if *ca != prev_ca {
                    let c = ca.as_array().unwrap();
                    let mut tl = pool_tl!(A, c[1].as_i64().unwrap());
                    let ovf = c[2].as_i64().unwrap();
                    if ovf >= 0 { let s = hist_a[(ovf - 1) as usize]; tl.start_with(&A { x: f32::from_bits(s[0] as u32), y: f32::from_bits(s[1] as u32) }); }
                    let mut v = A { x: f32::from_bits(pa[0] as u32), y: f32::from_bits(pa[1] as u32) };
                    tl.update(&mut v, c[3].as_i64().unwrap() as f32 * TICK);
                    exp_a = bits(v.x, v.y); evals += 1;
                }
                let mut exp_b = pb;
                if cb[0] == "any" { exp_b = got_b; }
                else if cfg["hasb"].as_bool().unwrap() && *cb != prev_cb {
                    let c = cb.as_array().unwrap();
                    let tl = pool_tl!(B, c[1].as_i64().unwrap());
                    let mut v = B { x: f32::from_bits(pb[0] as u32), y: f32::from_bits(pb[1] as u32) };
                    tl.update(&mut v, c[3].as_i64().unwrap() as f32 * TICK);
                    exp_b = bits(v.x, v.y); evals += 1;
                }
                if exp_a != got_a || (cfg["hasb"].as_bool().unwrap() && exp_b != got_b) {
                    fail = Some(json!({"world": wi + 1, "frame": fi + 1, "cfg": cfg, "ord": cand["ord"], "predA": ca, "predB": cb,
                        "expA": exp_a, "gotA": got_a, "expB": exp_b, "gotB": got_b, "frame_rec": fr}));
                    break;
                }
                pa = got_a; pb = got_b; hist_a.push(pa); prev_ca = ca.clone(); prev_cb = cb.clone();
                checked += 1;
            }
            if fail.is_none() { ok_any = true; break; } else if first_fail.is_none() { first_fail = fail; }
        }
        if !ok_any { mism.push(first_fail.unwrap()); }
    }
    json!({"worlds": worlds.len(), "frames_checked": checked, "timeline_evaluations": evals, "mismatches": mism.len(), "first": mism.into_iter().take(5).collect::<Vec<_>>()})
}

fn main() {
    let args: Vec<String> = std::env::args().collect();
    match args.get(1).map(|s| s.as_str()).unwrap_or("") {
        "drive" => println!("{}", drive(args[2].parse().unwrap(), args[3].parse().unwrap(), args[4].parse().unwrap(), &args[5])),
        "drive-file" => println!("{}", drive_file(&args[2], &args[3])),
        "judge" => println!("{}", judge(&args[2], &args[3])),
        _ => { eprintln!("usage: harness_bevy drive <seed> <worlds> <frames> <out> | judge <trace> <tlc-output>"); std::process::exit(2); }
    }
}
