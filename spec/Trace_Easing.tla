---------------------------- MODULE Trace_Easing ----------------------------
(***************************************************************************)
(* Leg B for C13: a dense sweep of every built-in easing recorded from the  *)
(* real Easing::calc (as integers: q = round(calc(x) * 2^20), bit patterns  *)
(* at the end points) is checked against the laws of C13:                   *)
(*  exact end points; range and monotonicity (to float rounding) for all    *)
(*  but the Back family; Linear = identity; Out = point mirror of In;       *)
(*  InOut its own mirror.  One record per easing:                           *)
(*  {"ev":"ease","id":..,"b0":bits(calc(0)),"b1":bits(calc(1)),             *)
(*   "q":[calc(j/1024)], "lo":[calc(2^-k)], "hi":[calc(1-2^-k)], "nb":[..]} *)
(***************************************************************************)
EXTENDS Easing, Json, IOUtils, TLC, Sequences

Rec == ndJsonDeserialize(IOEnv.TRACE)
ONE == 1048576
SLACK == 2                 \* units of 2^-20: float rounding of the logged value
ById(id) == Rec[CHOOSE i \in 1..Len(Rec) : Rec[i].id = id]
Near(a, b) == a - b <= SLACK /\ b - a <= SLACK

VARIABLE l
Init == l = 1
Check(r) ==
  /\ r.b0 = 0 /\ r.b1 = 1065353216                                     \* calc(0) = 0.0 and calc(1) = 1.0 exactly
  /\ Len(r.q) = 1025 /\ r.q[1] = 0 /\ r.q[1025] = ONE
  /\ (r.id \notin Back =>
        /\ \A j \in 1..1025 : 0 <= r.q[j] /\ r.q[j] <= ONE               \* stays within [0,1]
        /\ \A j \in 1..1024 : r.q[j] <= r.q[j + 1] + SLACK               \* non-decreasing (to rounding)
        /\ \A k \in 1..24 : 0 <= r.lo[k] /\ r.lo[k] <= ONE /\ 0 <= r.hi[k] /\ r.hi[k] <= ONE
        /\ \A k \in 1..23 : r.lo[k + 1] <= r.lo[k] + SLACK /\ r.hi[k] <= r.hi[k + 1] + SLACK
        /\ \A k \in 1..3 : 0 <= r.nb[k] /\ r.nb[k] <= ONE)
  /\ (r.id = 10 => \A j \in 1..1025 : r.q[j] = (j - 1) * 1024)           \* Linear is the identity
  /\ (\A pr \in Pairs : pr[2] = r.id =>                                   \* Out(x) = 1 - In(1 - x)
        \A j \in 1..1025 : Near(r.q[j] + ById(pr[1]).q[1026 - j], ONE))
  /\ (r.id \in SelfMirror => \A j \in 1..1025 : Near(r.q[j] + r.q[1026 - j], ONE))
Step == l <= Len(Rec) /\ Check(Rec[l]) /\ l' = l + 1
Spec == Init /\ [][Step]_l
PostAccepted ==
  LET d == TLCGet("stats").diameter IN
  IF d = Len(Rec) + 1 /\ Len(Rec) = 29 THEN TRUE ELSE Print(<<"REJECTED", d, Rec[d].id>>, FALSE)
=============================================================================
