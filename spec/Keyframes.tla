----------------------------- MODULE Keyframes -----------------------------
(***************************************************************************)
(* Per-property keyframe interpolation.                                     *)
(*                                                                          *)
(* A keyframe is [pos |-> 0..PD, d |-> <<d_1..d_NP>>, e |-> easing id or 0] *)
(* at position pos/PD; d_p = <<>> if the keyframe omits property p and      *)
(* <<v>> if it defines it with integer value v; e = 0 means "no easing      *)
(* given".  A position is a pair <<pn, pd>> (= pn/pd).                      *)
(*                                                                          *)
(* Two definitions of the value of one property at one position:            *)
(*   DesignSeg - the CSS meaning stated by C01/C02/C08/C10                  *)
(*   ImplSeg   - what the code does: stable sort, split into per-property   *)
(*               frames with synthetic 0% / trailing 100% frames            *)
(*               (SubTimeline::from_keyframes), frame_index_map, binary     *)
(*               search on the master list (prepare_frame), look-back /     *)
(*               hold / next-frame cases (get_bounding_frames), start       *)
(*               override on frame 0 (get_frame).                           *)
(* Both return a SET of terms: a singleton except exactly at a position     *)
(* shared by several keyframes, where the properties say nothing and the    *)
(* binary search may land on any of them.                                   *)
(***************************************************************************)
EXTENDS Terms, Integers, Sequences, FiniteSets

CONSTANTS PD,      \* position denominator
          NP,      \* number of animated properties
          Kind     \* Kind[p] \in {"f", "i"}

Props == 1..NP
Dflt == I(0)       \* Default::default() of every numeric field type
NoOv == <<>>       \* no start override for a property

Defines(k, p) == k.d[p] # <<>>
ValOf(k, p) == I(k.d[p][1])

\* ---------- ordering of positions ----------------------------------------
\* keyframe position a/PD compared with position <<pn, pd>>
KLe(a, pos) == a * pos[2] <= pos[1] * PD
KLt(a, pos) == a * pos[2] <  pos[1] * PD
KEq(a, pos) == a * pos[2] =  pos[1] * PD

\* ---------- stable sort by position (Vec::sort_by is stable) --------------
RECURSIVE InsertSorted(_, _)
InsertSorted(k, s) ==       \* after every element with pos <= k.pos
  IF s = <<>> THEN <<k>>
  ELSE IF s[Len(s)].pos <= k.pos THEN Append(s, k)
  ELSE Append(InsertSorted(k, SubSeq(s, 1, Len(s) - 1)), s[Len(s)])
RECURSIVE StableSort(_)
StableSort(s) == IF s = <<>> THEN <<>>
                 ELSE InsertSorted(s[Len(s)], StableSort(SubSeq(s, 1, Len(s) - 1)))

IsSorted(s) == \A i \in 1..(Len(s) - 1) : s[i].pos <= s[i + 1].pos

\* ---------- implementation-shaped ------------------------------------------
\* SubTimeline::from_keyframes for property p over the SORTED keyframes ks.
\* frames: sequence of [pos (numerator over PD), val (term), e]; map: 0-based
\* frame index per master keyframe.
RECURSIVE SplitRec(_, _, _, _, _, _, _)
SplitRec(ks, p, i, frames, map, cur, has) ==
  IF i > Len(ks) THEN [frames |-> frames, map |-> map, has |-> has]
  ELSE LET k  == ks[i]
           f1 == IF frames = <<>> /\ k.pos > 0
                 THEN <<[pos |-> 0, val |-> Dflt, e |-> cur]>> ELSE frames
           c2 == IF Defines(k, p) /\ k.e # 0 THEN k.e ELSE cur
           f2 == IF Defines(k, p)
                 THEN Append(f1, [pos |-> k.pos, val |-> ValOf(k, p), e |-> c2]) ELSE f1
           n  == IF Len(f2) = 0 THEN 0 ELSE Len(f2) - 1      \* len().max(1) - 1
       IN SplitRec(ks, p, i + 1, f2, Append(map, n), c2, has \/ Defines(k, p))

Sub(ks, p, de) ==
  LET s == SplitRec(ks, p, 1, <<>>, <<>>, de, FALSE) IN
  IF ~s.has THEN [frames |-> <<>>, map |-> <<>>]            \* SubTimeline::empty()
  ELSE LET last == s.frames[Len(s.frames)] IN
       [frames |-> IF last.pos < PD THEN Append(s.frames, [last EXCEPT !.pos = PD])
                   ELSE s.frames,
        map |-> s.map]

\* prepare_frame: binary search of the position in the master positions.
\* Ok(i): any i with an equal position; Err(i): max(i,1)-1.  0-based result.
MasterIdxSet(ks, pos) ==
  LET Eq == {i \in 1..Len(ks) : KEq(ks[i].pos, pos)}
      Lt == {i \in 1..Len(ks) : KLt(ks[i].pos, pos)}
  IN IF Eq # {} THEN {i - 1 : i \in Eq}
     ELSE IF Lt = {} THEN {0}
     ELSE {(CHOOSE i \in Lt : \A j \in Lt : j <= i) - 1}

\* interpolate_value on two frames
Interp(k, fa, fb, pos) ==
  IF fb.pos = fa.pos THEN fa.val                              \* duration == 0.0
  ELSE MkVal(k, fa.val, fb.val, fa.e,
             pos[1] * PD - fa.pos * pos[2], (fb.pos - fa.pos) * pos[2])

\* get_frame: frame 0 is replaced by the override frame when enabled
FrameAt(st, i0, useov, ov) ==
  IF useov /\ i0 = 0 /\ ov # NoOv THEN [st.frames[1] EXCEPT !.val = ov[1]] ELSE st.frames[i0 + 1]

\* value_at / get_bounding_frames for one master index (0-based)
ImplAt(k, st, mi, pos, useov, ov) ==
  LET ia == st.map[mi + 1]
      fa == FrameAt(st, ia, useov, ov)
  IN IF ~KLe(fa.pos, pos)                                     \* normalized_time < frame_at.time
     THEN IF ia > 0 THEN Interp(k, FrameAt(st, ia - 1, useov, ov), fa, pos)
          ELSE U                                               \* None: target untouched
     ELSE IF ia = Len(st.frames) - 1 THEN fa.val              \* [frame_at, frame_at]
     ELSE Interp(k, fa, st.frames[ia + 2], pos)

ImplSeg(ks, p, de, pos, useov, ov) ==
  LET st == Sub(ks, p, de) IN
  IF st.map = <<>> THEN {U}
  ELSE {ImplAt(Kind[p], st, mi, pos, useov, ov) : mi \in MasterIdxSet(ks, pos)}

\* ---------- design level ----------------------------------------------------
\* ks sorted (stably).  D = the keyframes defining p.
DesignSeg(ks, p, de, pos, useov, ov) ==
  LET D == {i \in 1..Len(ks) : Defines(ks[i], p)} IN
  IF D = {} THEN {U}                                          \* C08: not animated
  ELSE
  LET Max(S) == CHOOSE i \in S : \A j \in S : j <= i
      Min(S) == CHOOSE i \in S : \A j \in S : i <= j
      At     == {i \in D : KEq(ks[i].pos, pos)}
      Before == {i \in D : KLe(ks[i].pos, pos)}
      After  == {i \in D : ~KLe(ks[i].pos, pos)}
      EaseAt(i) == LET E == {j \in D : j <= i /\ ks[j].e # 0} IN
                   IF E = {} THEN de ELSE ks[Max(E)].e
      \* the 0% frame: the first defining keyframe if it sits at 0%, else synthetic
      first == Min(D)
      HasZero == ks[first].pos = 0
      ZeroVal == IF useov /\ ov # NoOv THEN ov[1]
                 ELSE IF HasZero THEN ValOf(ks[first], p) ELSE Dflt
      \* lower neighbour as [pos, val, e]
      Lower(i) == IF i = first /\ HasZero
                  THEN [pos |-> 0, val |-> ZeroVal, e |-> EaseAt(i)]
                  ELSE [pos |-> ks[i].pos, val |-> ValOf(ks[i], p), e |-> EaseAt(i)]
      lo == IF Before = {} THEN [pos |-> 0, val |-> ZeroVal, e |-> de]
            ELSE Lower(Max(Before))
      k == Kind[p]
  IN IF Cardinality(At) >= 2
     THEN \* position shared by several defining keyframes: any of their values
          {(Lower(i)).val : i \in At}
     ELSE \* upper neighbour: next defining keyframe, else the implicit 100% keyframe
          \* holding the last defined value (differs from lo.val only under an override)
          LET hi == IF After = {} THEN [pos |-> PD, val |-> ValOf(ks[Max(D)], p)]
                    ELSE [pos |-> ks[Min(After)].pos, val |-> ValOf(ks[Min(After)], p)]
          IN IF hi.pos = lo.pos THEN {lo.val}
             ELSE {MkVal(k, lo.val, hi.val, lo.e,
                         pos[1] * PD - lo.pos * pos[2], (hi.pos - lo.pos) * pos[2])}
=============================================================================
