SPECIFICATION Spec
CONSTANTS
  PD = 4
  NP = 2
  Kind <- Kind2
  MaxKf = 2
  NE = 2
  EasePool <- EasesA
  TimingPool <- TimingsA
  Seed = 1
  NRand = 0
INVARIANT Emit
CHECK_DEADLOCK FALSE
