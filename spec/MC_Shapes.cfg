SPECIFICATION Spec
CONSTANTS
  NShapes = 40
  Seed = 1
INVARIANTS OnlyAnimated NonEmpty Emit
CHECK_DEADLOCK FALSE
