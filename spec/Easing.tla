------------------------------- MODULE Easing -------------------------------
(***************************************************************************)
(* The 29 built-in easings (core/src/easing.rs).  Id 10 is Linear; ids      *)
(* 11..38 are cubic Bezier timing functions with end points (0,0), (1,1)    *)
(* and the PUBLISHED control points (CSS for Ease/In/Out/InOut, easings.net *)
(* for the rest), here in hundredths: CP[id] = <<x1, y1, x2, y2>>.          *)
(* For t = k/N the curve point is exact:                                    *)
(*   Bx(id,k,N) / Den(N),  By(id,k,N) / Den(N),   Den(N) = 100 * N^3         *)
(* Design (C13): calc(Bx/Den) = By/Den - the graph of the timing function.  *)
(* As found ("C13_param_as_x"): calc(k/N) = By(id,k,N)/Den - the curve's y  *)
(* at PARAMETER t = x (lyon's segment.y(t)), not at horizontal position x.  *)
(***************************************************************************)
EXTENDS Integers, Sequences

Ids == 10..38
Bezier == 11..38
Back == {36, 37, 38}
CP == [id \in Bezier |->
  CASE id = 11 -> <<25, 10, 25, 100>>   \* Ease
    [] id = 12 -> <<42, 0, 100, 100>>   \* In
    [] id = 13 -> <<0, 0, 58, 100>>     \* Out
    [] id = 14 -> <<42, 0, 58, 100>>    \* InOut
    [] id = 15 -> <<12, 0, 39, 0>>      \* InSine
    [] id = 16 -> <<61, 100, 88, 100>>  \* OutSine
    [] id = 17 -> <<37, 0, 63, 100>>    \* InOutSine
    [] id = 18 -> <<11, 0, 50, 0>>      \* InQuad
    [] id = 19 -> <<50, 100, 89, 100>>  \* OutQuad
    [] id = 20 -> <<45, 0, 55, 100>>    \* InOutQuad
    [] id = 21 -> <<32, 0, 67, 0>>      \* InCubic
    [] id = 22 -> <<33, 100, 68, 100>>  \* OutCubic
    [] id = 23 -> <<65, 0, 35, 100>>    \* InOutCubic
    [] id = 24 -> <<50, 0, 75, 0>>      \* InQuart
    [] id = 25 -> <<25, 100, 50, 100>>  \* OutQuart
    [] id = 26 -> <<76, 0, 24, 100>>    \* InOutQuart
    [] id = 27 -> <<64, 0, 78, 0>>      \* InQuint
    [] id = 28 -> <<22, 100, 36, 100>>  \* OutQuint
    [] id = 29 -> <<83, 0, 17, 100>>    \* InOutQuint
    [] id = 30 -> <<70, 0, 84, 0>>      \* InExpo
    [] id = 31 -> <<16, 100, 30, 100>>  \* OutExpo
    [] id = 32 -> <<87, 0, 13, 100>>    \* InOutExpo
    [] id = 33 -> <<55, 0, 100, 45>>    \* InCirc
    [] id = 34 -> <<0, 55, 45, 100>>    \* OutCirc
    [] id = 35 -> <<85, 0, 15, 100>>    \* InOutCirc
    [] id = 36 -> <<36, 0, 66, -56>>    \* InBack
    [] id = 37 -> <<34, 156, 64, 100>>  \* OutBack
    [] id = 38 -> <<68, -60, 32, 160>>] \* InOutBack
\* In/Out pairs and self-mirrored InOut curves
Pairs == {<<12, 13>>, <<15, 16>>, <<18, 19>>, <<21, 22>>, <<24, 25>>, <<27, 28>>, <<30, 31>>, <<33, 34>>, <<36, 37>>}
SelfMirror == {14, 17, 20, 23, 26, 29, 32, 35, 38}

Den(N) == 100 * N * N * N
\* cubic Bernstein polynomial with end values 0 and 100 and inner control values p1, p2
Bern(p1, p2, k, N) == 3 * (N - k) * (N - k) * k * p1 + 3 * (N - k) * k * k * p2 + 100 * k * k * k
Bx(id, k, N) == IF id = 10 THEN 100 * k * N * N ELSE Bern(CP[id][1], CP[id][3], k, N)
By(id, k, N) == IF id = 10 THEN 100 * k * N * N ELSE Bern(CP[id][2], CP[id][4], k, N)

Mirror(c) == <<100 - c[3], 100 - c[4], 100 - c[1], 100 - c[2]>>

\* ---- model-level facts (checked by MC_Easing for N = 64) ----------------------------------
Endpoints(N) == \A id \in Ids : Bx(id, 0, N) = 0 /\ By(id, 0, N) = 0 /\ Bx(id, N, N) = Den(N) /\ By(id, N, N) = Den(N)
XMonotone(N) == \A id \in Ids, k \in 0..(N - 1) : Bx(id, k, N) <= Bx(id, k + 1, N)      \* f is a function of x
InRange(N) == \A id \in Ids \ Back, k \in 0..N : 0 <= By(id, k, N) /\ By(id, k, N) <= Den(N)
YMonotone(N) == \A id \in Ids \ Back, k \in 0..(N - 1) : By(id, k, N) <= By(id, k + 1, N)
MirrorCP == /\ \A pr \in Pairs : CP[pr[2]] = Mirror(CP[pr[1]])
            /\ \A id \in SelfMirror : CP[id] = Mirror(CP[id])
\* the as-found evaluation differs from the definition for EVERY Bezier easing (none has Bx(t) = t)
ParamIsNotX(N) == \A id \in Bezier : \E k \in 1..(N - 1) : Bx(id, k, N) # 100 * k * N * N
=============================================================================
