------------------------------ MODULE AnimProto ------------------------------
(***************************************************************************)
(* The pause / resume protocol of the state animator, abstracted from the   *)
(* values: which state is current, how long it has been current, and the    *)
(* remembered (state, time) pair.  Written in the Apalache-typed fragment   *)
(* so that the structural invariant PauseShape is proved INDUCTIVE - for    *)
(* histories of any length, any advance amounts, and every choice of which  *)
(* states carry a timeline:                                                 *)
(*   apalache-mc check --cinit=CInit --init=IndInit --inv=IndInv --length=1 *)
(*   apalache-mc check --cinit=CInit --init=Init --inv=IndInv --length=0    *)
(* Stale = TRUE is the as-found code (record never cleared): the negative   *)
(* control, for which inductiveness must fail.                              *)
(***************************************************************************)
EXTENDS Integers

CONSTANTS
  \* @type: Set(Int);
  Animated,
  \* @type: Bool;
  Stale

VARIABLES
  \* @type: Int;
  cur,
  \* @type: Int;
  ticks,
  \* @type: Bool;
  phas,
  \* @type: Int;
  pst,
  \* @type: Int;
  pt

States == 1..4
CInit == Animated \in SUBSET States /\ Stale = FALSE
CInitStale == Animated \in SUBSET States /\ Stale = TRUE

Init == cur \in States /\ ticks = 0 /\ phas = FALSE /\ pst = 0 /\ pt = 0

Advance == \E dt \in Nat : ticks' = ticks + dt /\ UNCHANGED <<cur, phas, pst, pt>>

SetState == \E s \in States :
  IF s = cur THEN UNCHANGED <<cur, ticks, phas, pst, pt>>
  ELSE /\ cur' = s
       /\ IF phas /\ pst = s
          THEN /\ ticks' = pt                                        \* resume
               /\ phas' = (IF Stale THEN phas ELSE FALSE) /\ UNCHANGED <<pst, pt>>
          ELSE /\ ticks' = 0
               /\ IF cur \in Animated /\ s \notin Animated
                  THEN phas' = TRUE /\ pst' = cur /\ pt' = ticks     \* remember the interrupted animation
                  ELSE IF Stale THEN UNCHANGED <<phas, pst, pt>>
                  ELSE IF s \in Animated THEN phas' = FALSE /\ UNCHANGED <<pst, pt>>   \* discard
                  ELSE UNCHANGED <<phas, pst, pt>>                   \* kept across un-animated states

Next == Advance \/ SetState

TypeOK == cur \in States /\ ticks \in Nat /\ phas \in BOOLEAN /\ pst \in 0..4 /\ pt \in Nat
\* a pause record exists only while the current state has no timeline, and names an animated state
PauseShape == phas => (cur \notin Animated /\ pst \in Animated /\ pst # cur)
IndInv == TypeOK /\ PauseShape
IndInit == IndInv
=============================================================================
