----------------------------- MODULE MC_Grammar -----------------------------
(***************************************************************************)
(* Sentence generator for timeline! (C15) and animator! (C16).  Sentences   *)
(* are drawn pseudo-randomly from the argument alphabet (NRand sentences of *)
(* length <= MaxArgs each, all prefixes included) and printed with their    *)
(* Reading and the spec's predicted values at sampled times; a printer      *)
(* turns the argument records into macro tokens and into the builder twin.  *)
(***************************************************************************)
EXTENDS Grammar, Json

CONSTANTS MaxArgs, NRand, Seed

VARIABLES sent, rng
vars == <<sent, rng>>

DurMs == <<1000, 2000, 1500, 250, 125, 100, 300, 3000, 40, 7, 1001, 500, 750, 60000>>
DelMs == <<0, 500, 125, 1000, 250, 1, 333, 2500>>
\* in ticks, with fractional numbers of milliseconds added: 24.5 ms, 2.5 ms, 1000.5 ms, 1.5 ms, 250.5 ms / 2.5 ms, 0.5 ms, 333.5 ms
DurT == [i \in 1..Len(DurMs) |-> DurMs[i] * TPM] \o <<49, 5, 2001, 3, 501>>
DelT == [i \in 1..Len(DelMs) |-> DelMs[i] * TPM] \o <<5, 1, 667>>
Eases == <<11, 12, 19, 23, 37, 10, 28>>
Positions == <<0, 200, 100, 50, 80, 20, 25, 150, 199, 1, 66, 120, 175, 134>>    \* half-percents: 40% = 80, 12.5% = 25
ValX == <<8, -4, 100, 0, 37>>
ValN == <<9, -20, 0, 255, 3>>

LCG(r) == ((r * 1103) + 12345) % 65521
Pick(s, r) == s[(r % Len(s)) + 1]

\* one pseudo-random argument from generator state r
Arg(r) ==
  LET r1 == LCG(r)  r2 == LCG(r1)  r3 == LCG(r2)  c == r1 % 12 IN
  IF c < 2 THEN LET tk == Pick(DurT, r2) IN
                [k |-> "dur", tk |-> tk,
                 form |-> IF tk % (1000 * TPM) = 0 /\ (r3 % 3) = 0 THEN (IF (r3 % 2) = 0 THEN "s" ELSE "for_s")
                          ELSE IF (r3 % 5) = 0 THEN "s" ELSE IF (r3 % 5) = 1 THEN "for_ms"
                          ELSE IF (r3 % 5) = 2 /\ tk >= 1000 * TPM /\ tk % TPM = 0 THEN "ms_" ELSE IF (r3 % 5) = 3 THEN "for_s" ELSE "ms"]
  ELSE IF c = 2 THEN [k |-> "del", tk |-> Pick(DelT, r2), form |-> IF (r3 % 2) = 0 THEN "s" ELSE "ms"]
  ELSE IF c = 3 THEN [k |-> "rep", n |-> IF (r2 % 4) = 0 THEN -2 ELSE IF (r2 % 11) = 0 THEN Pick(<<16777217, 2000000001, 1000000, 33554431>>, r3) ELSE (r2 % 5) + 1]
  ELSE IF c = 4 THEN [k |-> "rev"]
  ELSE IF c = 5 THEN [k |-> "ease", e |-> Pick(Eases, r2)]
  ELSE LET form == IF (r2 % 4) = 0 THEN "from" ELSE IF (r2 % 4) = 1 THEN "to" ELSE "pct"
           pos == IF form = "from" THEN 0 ELSE IF form = "to" THEN PD ELSE Pick(Positions, r3)
           m == r3 % 7
       IN [k |-> "kf", pos |-> pos, form |-> form,
           \* (m = 6: an empty field list `{ }` - a keyframe that defines nothing)
           d |-> << IF m # 1 /\ m # 6 THEN <<Pick(ValX, r2 \div 4)>> ELSE <<>>,
                    IF m = 2 \/ m = 5 THEN <<Pick(ValX, r3 \div 7) + 1>> ELSE <<>>,
                    IF m = 1 \/ m = 3 \/ m = 5 THEN <<Pick(ValN, r2 \div 9)>> ELSE <<>>,
                    IF m = 4 THEN <<Pick(ValN, r3 \div 3)>> ELSE <<>> >>]

Init == sent = <<>> /\ rng \in {((((Seed * 7919) + (i * 104729)) % 65521) + 1) : i \in 1..NRand}
Next == /\ Len(sent) < MaxArgs
        /\ sent' = Append(sent, Arg(rng))
        /\ rng' = LCG(LCG(LCG(LCG(rng))))
Spec == Init /\ [][Next]_vars

AllWellFormed == \A i \in 1..Len(sent) : WellFormed(sent[i])
\* swapping two adjacent arguments of different kinds (not both keyframes) does not change the reading
SwapInvariant ==
  \A i \in 1..(Len(sent) - 1) :
    sent[i].k # sent[i + 1].k =>
      Reading([sent EXCEPT ![i] = sent[i + 1], ![i + 1] = sent[i]]) = Reading(sent)

RECURSIVE SetToSeq(_)
SetToSeq(S) == IF S = {} THEN <<>> ELSE LET x == CHOOSE y \in S : TRUE IN <<x>> \o SetToSeq(S \ {x})
RECURSIVE SortedSeq(_)
SortedSeq(S) == IF S = {} THEN <<>> ELSE LET x == CHOOSE y \in S : \A z \in S : y <= z IN <<x>> \o SortedSeq(S \ {x})

\* Times (ticks) at which macro and builder twin are compared bit for bit: anything goes.
TwinTimes(cfg) ==
  LET c == cfg.tm.cyc  d == cfg.tm.del
      cycles == IF Unbounded(cfg.tm) THEN 3 ELSE IF cfg.tm.rep = -1 THEN 1 ELSE cfg.tm.rep + 1 IN
  SortedSeq({0, d, d + c * cycles, d + c * cycles + c} \cup {d + ((j * c) \div 16) : j \in 0..(16 * cycles)})
\* Times at which the spec's value predictions are compared as well.  A time is an f32: its rounding
\* error relative to the cycle must stay small (cycles >= 100 ms, else only 0 / mid-delay / far beyond the
\* end), and the instants where the position wraps from 100% to 0% are excluded - on a millisecond grid
\* they fall on either side.
SampleTimes(cfg) ==
  LET c == cfg.tm.cyc  d == cfg.tm.del
      cycles == IF Unbounded(cfg.tm) THEN 3 ELSE IF cfg.tm.rep = -1 THEN 1 ELSE cfg.tm.rep + 1
      inner == IF c < 100 * TPM THEN {} ELSE {d + (((2 * j + 1) * c) \div 16) : j \in 0..(8 * cycles - 1)} IN
  SortedSeq({0} \cup {t \in inner : ((t - d) % c) # 0}
            \cup (IF Unbounded(cfg.tm) THEN {} ELSE {d + c * cycles + c + 100 * TPM})
            \cup (IF d > 1 THEN {d \div 2} ELSE {}))

Class(cfg, t, p) ==
  LET ks == cfg.kfs  pos == PosDesign(cfg.tm, t)
      D == {i \in 1..Len(ks) : Defines(ks[i], p)}
  IN IF D = {} THEN "U" ELSE IF t <= cfg.tm.del THEN "pre"
     ELSE IF ~Unbounded(cfg.tm) /\ t >= Total(cfg.tm) THEN "end"
     ELSE IF \E i \in D : KEq(ks[i].pos, pos) THEN "hit" ELSE "seg"

Emit == Len(sent) > 0 =>
  LET cfg == Reading(sent)  ts == SampleTimes(cfg) IN
  PrintT(<<"REPLAY", ToJson([kind |-> "sentence", tpm |-> TPM, pd |-> PD, np |-> NP, args |-> sent,
                             kfs |-> cfg.kfs, de |-> cfg.de, tm |-> cfg.tm, ov |-> NoOvAll, total |-> TotalOf(cfg),
                             ts |-> ts, tw |-> TwinTimes(cfg),
                             evals |-> [i \in 1..Len(ts) |-> LET r == Eval(cfg, NoOvAll, ts[i]) IN [p \in Props |-> SetToSeq(r[p])]],
                             cls |-> [i \in 1..Len(ts) |-> [p \in Props |-> Class(cfg, ts[i], p)]]])>>)
=============================================================================
