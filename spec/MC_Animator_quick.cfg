SPECIFICATION Spec
CONSTANTS
  Depth = 6
  DTs = {0, 1, 3}
  K = 1
  NRand = 0
  Seed = 1
  EmitLines = FALSE
  Big = 0
  Defects = {}
INVARIANTS Consistent EndedIff TerminalWhenEnded NeverEndedIfInfinite PauseShape FrameRateFree
PROPERTIES NoJump PauseRules EndedStable KeepsOthers
VIEW View
CHECK_DEADLOCK FALSE
