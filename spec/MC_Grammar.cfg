SPECIFICATION Spec
CONSTANTS
  MaxArgs = 7
  NRand = 40
  Seed = 1
INVARIANTS AllWellFormed SwapInvariant Emit
CHECK_DEADLOCK FALSE
