SPECIFICATION Spec
CONSTANTS Defects = {}
POSTCONDITION PostAccepted
CHECK_DEADLOCK FALSE
