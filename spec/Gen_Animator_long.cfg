SPECIFICATION Spec
CONSTANTS
  Depth = 30
  DTs = {0, 1, 2, 3}
  K = 5
  NRand = 50
  Seed = 1
  EmitLines = TRUE
  Big = 16777216
  Defects = {}
INVARIANTS Emit
CHECK_DEADLOCK FALSE
