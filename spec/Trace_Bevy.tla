----------------------------- MODULE Trace_Bevy -----------------------------
(***************************************************************************)
(* Leg B for the Bevy plugin: a log recorded from a real App (hand-driven   *)
(* Time, real plugins and systems) is checked to be a behaviour of Bevy.tla.*)
(* Records:                                                                 *)
(*  {"ev":"world", "tl":[[del,tot]..], "keytl":[..], "chain":[..],          *)
(*   "hassel":b, "hasb":b, "hase2":b, "tlA":id, "tlB":id, "tlE2":id,         *)
(*   "key0":k, "enA":b}                                                     *)
(*  {"ev":"op", "op":"key"|"enable"|"reset"|"settl"|"setpos", ...}           *)
(*  {"ev":"frame", "dt":ticks, "A":[st,pos,en], "B":[st,pos,en], "key":k,   *)
(*   "out":[state numbers of the events sent this frame, in order]}         *)
(* The system order is not logged: TLC picks `ord` nondeterministically at  *)
(* every "world" record and only the orders that explain every later        *)
(* observation survive.  Component contents are predicted as evaluation     *)
(* identities (pred) and printed for the surviving behaviours; the harness  *)
(* re-evaluates the real timelines at exactly those points (judge).         *)
(***************************************************************************)
EXTENDS Bevy, Json, IOUtils, TLC

Rec == ndJsonDeserialize(IOEnv.TRACE)

VARIABLES l, w, ord, pred, wi
vars == <<l, w, ord, pred, wi>>

B2I(b) == IF b THEN 1 ELSE 0
ObsOf(a) == <<StNo(a.st), a.pos, B2I(a.en)>>
\* state numbers of the events of the first entity (who # "A2") resp. of the second (who = "A2"), in order
RECURSIVE OutNos(_, _, _)
OutNos(out, i, second) == IF i > Len(out) THEN <<>>
                          ELSE (IF (out[i][1] = "A2") = second THEN <<StNo(out[i][2])>> ELSE <<>>) \o OutNos(out, i + 1, second)

EmptyWorld == World0([TL |-> <<>>, KeyTl |-> <<>>, ChainNext |-> <<>>, HasSel |-> FALSE, HasB |-> FALSE, HasE2 |-> FALSE, C2Late |-> FALSE], 0, 0, 0, 0, TRUE)
Init == l = 1 /\ w = EmptyWorld /\ ord = <<>> /\ pred = <<>> /\ wi = 0

Flush == IF wi > 0 THEN PrintT(<<"PRED", ToJson([world |-> wi, ord |-> ord, pred |-> pred])>>) ELSE TRUE

TWorld ==
  /\ l <= Len(Rec) /\ Rec[l].ev = "world"
  /\ Flush
  /\ LET r == Rec[l]
         c == [TL |-> [i \in 1..Len(r.tl) |-> [del |-> r.tl[i][1], tot |-> r.tl[i][2]]],
               KeyTl |-> r.keytl, ChainNext |-> r.chain, HasSel |-> r.hassel, HasB |-> r.hasb, HasE2 |-> r.hase2, C2Late |-> r.c2late]
     IN w' = World0(c, r.tlA, r.tlB, r.tlE2, r.key0, r.enA)
  /\ ord' \in Orders
  /\ pred' = <<>> /\ wi' = wi + 1 /\ l' = l + 1

TOp ==
  /\ l <= Len(Rec) /\ Rec[l].ev = "op"
  /\ LET r == Rec[l] IN
     w' = CASE r.op = "key" -> SetKey(w, r.k)
            [] r.op = "enable" -> SetEnabled(w, r.T, r.b)
            [] r.op = "reset" -> Reset(w, r.T)
            [] r.op = "settl" -> SetTimeline(w, r.T, r.id)
            [] r.op = "setpos" -> SetPos(w, r.T, r.p)
            [] r.op = "rmcomp" -> RmComp(w)
            [] r.op = "addcomp" -> AddComp(w)
            [] r.op = "pause" -> w          \* pausing / re-timing the clock changes nothing but the deltas of
            [] r.op = "speed" -> w          \* later frames (the logged dt IS Time::delta())
  /\ l' = l + 1 /\ UNCHANGED <<ord, pred, wi>>

TFrame ==
  /\ l <= Len(Rec) /\ Rec[l].ev = "frame"
  /\ LET r == Rec[l]
         n == Frame(w, ord, r.dt)
     IN /\ r.A = ObsOf(n.an["A"])                       \* state, position, enabled of Animator<A>
        /\ (n.c.HasB => r.B = ObsOf(n.an["B"]))
        /\ (n.c.HasE2 => (r.A2 = ObsOf(n.an["A2"]) /\ r.out2 = OutNos(n.out, 1, TRUE)))   \* the second entity
        /\ (n.c.HasSel => r.key = n.key)                 \* selector key after the frame
        /\ r.out = OutNos(n.out, 1, FALSE)               \* events of the first entity sent this frame, in order
        /\ w' = n
        /\ pred' = Append(pred, [A |-> n.cid["A"], B |-> n.cid["B"], A2 |-> n.cid["A2"]])
  /\ l' = l + 1 /\ UNCHANGED <<ord, wi>>

TEnd == l = Len(Rec) + 1 /\ Flush /\ l' = l + 1 /\ UNCHANGED <<w, ord, pred, wi>>

Next == TWorld \/ TOp \/ TFrame \/ TEnd
Spec == Init /\ [][Next]_vars

PostAccepted ==
  LET d == TLCGet("stats").diameter IN
  IF d = Len(Rec) + 2 THEN TRUE
  ELSE Print(<<"REJECTED", d, IF d <= Len(Rec) THEN Rec[d] ELSE "end">>, FALSE)
=============================================================================
