SPECIFICATION Spec
CONSTANTS
  PD = 8
  NP = 4
  Kind <- Kind4
  MaxKf = 6
  NE = 5
  EasePool <- EasesA
  TimingPool <- TimingsA
  Seed = 1
  PosPool <- AllPos
  NRand = 6000
INVARIANTS RefinesR Emit
CHECK_DEADLOCK FALSE
