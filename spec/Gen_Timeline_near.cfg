SPECIFICATION Spec
CONSTANTS
  PD = 16777216
  NP = 2
  Kind <- Kind2
  MaxKf = 4
  NE = 1
  EasePool <- EasesA
  TimingPool <- TimingsA
  Seed = 1
  PosPool <- NearPos
  NRand = 300
INVARIANT Emit
CHECK_DEADLOCK FALSE
