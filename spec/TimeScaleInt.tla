---------------------------- MODULE TimeScaleInt ----------------------------
(***************************************************************************)
(* The integer core of TimeScale.tla in the Apalache-typed fragment, for    *)
(* UNBOUNDED checking: every cycle C >= 1, delay D, repeat count N, finite  *)
(* or infinite (Inf), reversing or not, and every integer time t.           *)
(*   apalache-mc check --cinit=CInit --inv=<Inv> --length=0 TimeScaleInt.tla *)
(* Positions are kept multiplied by C (PosC = position * C).                *)
(* Bug = TRUE switches in the plain-modulo variant (no hold at the end of a *)
(* cycle) as a negative control; Wrap = TRUE the as-found u32 overflow of   *)
(* (N + 1) with a symbolic modulus M.                                       *)
(***************************************************************************)
EXTENDS Integers

CONSTANTS
  \* @type: Int;
  C,
  \* @type: Int;
  D,
  \* @type: Int;
  N,
  \* @type: Bool;
  Rev,
  \* @type: Bool;
  Inf,
  \* @type: Bool;
  Bug,
  \* @type: Bool;
  Wrap,
  \* @type: Int;
  M

VARIABLE
  \* @type: Int;
  t

CInit == /\ C \in Nat /\ C >= 1 /\ D \in Int /\ N \in Nat /\ Rev \in BOOLEAN /\ Inf \in BOOLEAN
         /\ Bug = FALSE /\ Wrap = FALSE /\ M = 2
CInitBug == /\ C \in Nat /\ C >= 1 /\ D \in Nat /\ N \in Nat /\ Rev \in BOOLEAN /\ Inf \in BOOLEAN
            /\ Bug = TRUE /\ Wrap = FALSE /\ M = 2
CInitWrap == /\ C \in Nat /\ C >= 1 /\ D \in Nat /\ N \in Nat /\ Rev \in BOOLEAN /\ Inf = FALSE
             /\ Bug = FALSE /\ Wrap = TRUE /\ M \in Nat /\ M >= 2 /\ N < M

Init == t \in Nat
Next == UNCHANGED t

Cyc1 == IF Wrap THEN (N + 1) % M ELSE N + 1          \* (times + 1), as found: in u32
Pre(x) == x < D
Ended(x) == ~Inf /\ x - D > C * Cyc1
Rem(x) == (x - D) % C
Quot(x) == (x - D) \div C
\* time_scale.rs: hold the cycle's end while at least one full cycle has completed
CycleTime(x) == IF Bug THEN Rem(x) ELSE IF Rem(x) = 0 /\ Quot(x) >= 1 THEN C ELSE Rem(x)
PosC(x) == IF Pre(x) THEN 0
           ELSE IF Ended(x) THEN (IF Rev THEN 0 ELSE C)
           ELSE IF ~Rev THEN CycleTime(x)
           ELSE IF 2 * CycleTime(x) > C THEN 2 * (C - CycleTime(x)) ELSE 2 * CycleTime(x)
Repeating(x) == ~Pre(x) /\ ~Ended(x) /\
                (IF Rem(x) = 0 /\ Quot(x) >= 1 THEN Quot(x) > 1 ELSE Quot(x) >= 1)
Reversing(x) == ~Pre(x) /\ ~Ended(x) /\ Rev /\ 2 * CycleTime(x) > C
UseOv(x) == Pre(x) \/ (~Ended(x) /\ ~Repeating(x) /\ ~Reversing(x))

\* ---- the closed form the property states -------------------------------------
TotalD == D + C * (N + 1)
DesignC(x) ==
  IF x < D THEN 0
  ELSE IF ~Inf /\ x > TotalD THEN (IF Rev THEN 0 ELSE C)
  ELSE LET y == x - D
           c == IF y % C = 0 /\ y > 0 THEN C ELSE y % C
       IN IF ~Rev THEN c ELSE IF 2 * c <= C THEN 2 * c ELSE 2 * (C - c)

ImplIsDesign == PosC(t) = DesignC(t)
InRange      == 0 <= PosC(t) /\ PosC(t) <= C
EndedIff     == Ended(t) <=> (~Inf /\ t >= TotalD + 1)
NeverEndedIfInf == Inf => ~Ended(t)
HoldAtEnd    == (~Rev /\ ~Pre(t) /\ ~Ended(t) /\ Rem(t) = 0 /\ Quot(t) >= 1) => PosC(t) = C
PeakAtHalf   == (Rev /\ ~Pre(t) /\ ~Ended(t) /\ 2 * Rem(t) = C) => PosC(t) = C
Periodic     == (~Pre(t) /\ ~Ended(t + C) /\ Rem(t) # 0) => PosC(t + C) = PosC(t)
Mirror       == (Rev /\ ~Pre(t) /\ ~Ended(t) /\ Rem(t) # 0) =>
                   PosC(t) = PosC(D + Quot(t) * C + (C - Rem(t)))
LinearRise   == (~Rev /\ ~Pre(t) /\ ~Ended(t + 1) /\ Rem(t) + 1 < C /\ ~(Rem(t) = 0 /\ Quot(t) >= 1)) =>
                   PosC(t + 1) = PosC(t) + 1
\* C02 / C07: from the total duration on the position is terminal and never changes again
AfterTotalConstant == (~Inf /\ t >= TotalD) => (PosC(t) = (IF Rev THEN 0 ELSE C) /\ PosC(t + 1) = PosC(t))
\* C10: the start override is enabled exactly during the first forward pass
FirstForward == UseOv(t) <=> (t - D <= 0 \/ ((IF Rev THEN 2 * (t - D) <= C ELSE t - D <= C) /\ ~Ended(t)))
\* C20: with the wrapped count the timeline would end prematurely (negative control)
NoPrematureEnd == (t <= TotalD) => ~Ended(t)

Inv == /\ ImplIsDesign /\ InRange /\ EndedIff /\ NeverEndedIfInf /\ HoldAtEnd /\ PeakAtHalf
       /\ Periodic /\ Mirror /\ LinearRise /\ AfterTotalConstant /\ FirstForward /\ NoPrematureEnd
=============================================================================
