SPECIFICATION Spec
CONSTANTS
  PD = 4
  NP = 1
  Kind <- Kind1
  MaxKf = 3
  NE = 2
  DefEasings = {1, 2}
  Defects = {}
INVARIANTS Refines HitsExact Untouched StartOnly OrderFree
CHECK_DEADLOCK FALSE
