SPECIFICATION Spec
CONSTANTS
  KW = 1
  MaxSteps = 7
  DTs = {0, 1, 3, 1000}
  EmitLines = FALSE
  OrdSel = 0
  Defects = {}
PROPERTIES C18 C19 C19Live
VIEW View
CHECK_DEADLOCK FALSE
