------------------------------- MODULE Terms -------------------------------
(***************************************************************************)
(* Exact values as *terms*.  TLC has 32-bit integers only, so the spec      *)
(* never computes a float: a value is either an integer constant, an exact  *)
(* rational, or the (normalised) application of lerp/round to sub-terms at  *)
(* an exact rational abscissa under a named easing.  The laws used by the   *)
(* normalisation are exactly the endpoint laws of C13 (ease(0)=0,           *)
(* ease(1)=1) and C14 (lerp(a,b,0)=a, lerp(a,b,1)=b, lerp(a,a,x)=a).        *)
(*   <<"i", n>>                integer n                                    *)
(*   <<"q", n, d>>             rational n/d                                 *)
(*   <<"L", a, b, e, fn, fd>>  lerp(a, b, ease_e(fn/fd)),  0 < fn < fd      *)
(*   <<"R", x>>                round-half-away-from-zero of x               *)
(*   <<"U">>                   untouched (target keeps what it had)         *)
(* The tag comes first and fixes the shape, so TLC never compares values of *)
(* different kinds.                                                         *)
(***************************************************************************)
EXTENDS Integers, Sequences

RECURSIVE GCD(_, _)
GCD(a, b) == IF b = 0 THEN a ELSE GCD(b, a % b)

Abs(x) == IF x < 0 THEN -x ELSE x

I(n) == <<"i", n>>
Q(n, d) == IF d = 1 THEN I(n) ELSE <<"q", n, d>>
U == <<"U">>

IsInt(t) == t[1] = "i" \/ t[1] = "R"

\* lerp(a, b, ease_e(fn/fd)) normalised with the endpoint laws
MkLerp(a, b, e, fn, fd) ==
  IF fn <= 0 THEN a
  ELSE IF fn >= fd THEN b
  ELSE IF a = b THEN a
  ELSE LET g == GCD(fn, fd) IN <<"L", a, b, e, fn \div g, fd \div g>>

\* integer-typed property: round to nearest; integers stay as they are
MkRound(t) == IF IsInt(t) THEN t ELSE <<"R", t>>

\* value of a property of kind k ("f" float / "i" integer-rounded)
MkVal(k, a, b, e, fn, fd) ==
  IF k = "i" THEN MkRound(MkLerp(a, b, e, fn, fd)) ELSE MkLerp(a, b, e, fn, fd)
=============================================================================
