------------------------------ MODULE Animator ------------------------------
(***************************************************************************)
(* The state animator (core/src/animator.rs MappedTimelineAnimator).        *)
(*                                                                          *)
(* Configuration:                                                           *)
(*   States  - set of states (CONSTANT)                                     *)
(*   tls     - tls[s] = <<>> for a state without timeline, else a non-empty *)
(*             sequence of timeline cfgs (a merged timeline); a variable    *)
(*             fixed at construction so one run can cover many animators    *)
(* State:                                                                   *)
(*   cur     current_state                                                  *)
(*   ticks   state_duration (integer ticks)                                 *)
(*   paused  paused_animation: <<>> or <<state, ticks>>                     *)
(*   ov      ov[s] = start override of state s's timeline(s): NoOvAll or    *)
(*           the values handed to start_with when s was last blended        *)
(*   vals    current_values (sequence of terms, one per property)           *)
(* One action per public call: Advance(dt), SetState(s).  SetState follows  *)
(* the code's match statement by statement, with the as-found defect        *)
(* "C04_stale_pause" (pause record never cleared) behind a switch.          *)
(***************************************************************************)
EXTENDS Timeline

CONSTANTS States, Defects

VARIABLES cur, ticks, paused, ov, vals,
          tls      \* the configuration: tls[s] as above; never changes after construction
avars == <<cur, ticks, paused, ov, vals, tls>>

HasTl(s) == tls[s] # <<>>
Objs(s, o) == [i \in 1..Len(tls[s]) |-> [cfg |-> tls[s][i], ov |-> o]]
One(S) == CHOOSE x \in S : TRUE

\* update_current_values: overlay the (merged) timeline of s at time t onto v
Recompute(s, o, t, v) ==
  IF ~HasTl(s) THEN v
  ELSE LET r == EvalMerged(Objs(s, o), t) IN
       [p \in Props |-> IF One(r[p]) = U THEN v[p] ELSE One(r[p])]

TotalOfState(s) == MTotal(Objs(s, NoOvAll))
IsEnded == ~HasTl(cur) \/ F32Round(ticks) >= TotalOfState(cur)

AInit(t0, s0, v0) ==
  /\ tls = t0
  /\ cur = s0 /\ ticks = 0 /\ paused = <<>> /\ vals = v0
  /\ ov = [s \in States |-> IF s = s0 /\ t0[s0] # <<>> THEN StartWith(v0) ELSE NoOvAll]   \* blend_next_timeline

\* the timeline is evaluated at state_duration.as_secs_f32(): the exact clock rounded to f32
Advance(dt) ==
  /\ ticks' = ticks + dt
  /\ vals' = Recompute(cur, ov[cur], F32Round(ticks + dt), vals)
  /\ UNCHANGED <<cur, paused, ov, tls>>

SetState(s) ==
  IF s = cur THEN UNCHANGED avars                                    \* ignored
  ELSE
  /\ IF paused # <<>> /\ paused[1] = s
     THEN /\ ticks' = paused[2]                                       \* resume
          /\ paused' = IF "C04_stale_pause" \in Defects THEN paused ELSE <<>>
          /\ ov' = ov
     ELSE /\ paused' = IF HasTl(cur) /\ ~HasTl(s) THEN <<cur, ticks>>
                       ELSE IF "C04_stale_pause" \in Defects THEN paused
                       ELSE IF HasTl(s) THEN <<>> ELSE paused
          /\ ov' = IF HasTl(s) THEN [ov EXCEPT ![s] = StartWith(vals)] ELSE ov   \* blend_next_timeline
          /\ ticks' = 0
  /\ cur' = s /\ tls' = tls
  /\ vals' = Recompute(s, ov'[s], F32Round(ticks'), vals)

\* ---------------- properties ------------------------------------------------------
\* C04: a state change never makes the values jump
NoJump == [][cur' # cur => vals' = vals]_avars

\* C05: values = the current state's timeline at the time spent in it, started from the entry values
EntryVals == IF HasTl(cur) /\ ov[cur] # NoOvAll THEN [p \in Props |-> ov[cur][p][1]] ELSE vals
Consistent == HasTl(cur) => vals = Recompute(cur, ov[cur], F32Round(ticks), EntryVals)
\* C05: pause / resume / discard rules, stated on the transition
PauseRules ==
  [][cur' # cur =>
       /\ (HasTl(cur) /\ ~HasTl(cur')) => paused' = <<cur, ticks>>            \* remember the interrupted one
       /\ (~HasTl(cur) /\ ~HasTl(cur')) => paused' = paused                    \* kept across un-animated states
       /\ (paused # <<>> /\ paused[1] = cur') => (ticks' = paused[2] /\ paused' = <<>> /\ ov' = ov)   \* resume
       /\ (HasTl(cur') /\ ~(paused # <<>> /\ paused[1] = cur')) =>
            (paused' = <<>> /\ ticks' = 0 /\ ov'[cur'] = StartWith(vals))      \* blend afresh, discard
  ]_avars

\* A pause record exists only while the current state has no timeline, and it names an animated state
\* (the as-found code violated this: the record survived into animated states)
PauseShape == paused # <<>> => (~HasTl(cur) /\ HasTl(paused[1]) /\ paused[1] # cur)
\* C06 in the model: values are a function of the total time in the state - delivering the same time in two
\* frames (a then b) or in one (a + b) gives the same values, for every split
PartitionFree(DT) ==
  \A a \in DT, b \in DT :
    Recompute(cur, ov[cur], F32Round(ticks + a + b), Recompute(cur, ov[cur], F32Round(ticks + a), vals))
      = Recompute(cur, ov[cur], F32Round(ticks + a + b), vals)

\* C07: completion
EndedStable == [][(IsEnded /\ cur' = cur) => (IsEnded' /\ vals' = vals)]_avars
\* C08 in the animator: properties the current timeline does not animate keep their value
AnimatedNow == UNION {Animated(tls[cur][i]) : i \in 1..Len(tls[cur])}
KeepsOthers == [][cur' = cur => \A p \in Props : p \notin AnimatedNow => vals'[p] = vals[p]]_avars
=============================================================================
