SPECIFICATION Spec
CONSTANTS
  KO = 1
  Depth = 24
  NRand = 60
  Seed = 1
  Times = {0, 1, 2, 3, 4, 5, 7, 8, 9, 11, 13, 16, 40}
  EmitLines = TRUE
INVARIANT Emit
CHECK_DEADLOCK FALSE
