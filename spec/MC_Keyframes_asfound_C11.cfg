SPECIFICATION Spec
CONSTANTS
  PD = 4
  NP = 1
  Kind <- Kind1
  MaxKf = 3
  NE = 0
  DefEasings = {1}
  Defects = {"C11_unsorted_boundaries"}
INVARIANTS OrderFree
CHECK_DEADLOCK FALSE
