SPECIFICATION Spec
CONSTANTS
  Cycs = {1, 2, 3, 4, 5, 6, 7, 8, 12, 16, 31}
  Dels <- DelsThorough
  Reps <- RepsThorough
  Defects = {}
INVARIANTS ImplIsDesign InRange PreIff EndIff Terminal Linear HoldAtEnd PeakAtHalf Mirror Periodic Flags TotalAgrees
CHECK_DEADLOCK FALSE
