SPECIFICATION Spec
CONSTANTS
  Cycs = {2, 4}
  Dels = {0, 1}
  Reps <- RepsQuick
  Defects = {"C02_no_hold"}
INVARIANTS HoldAtEnd
CHECK_DEADLOCK FALSE
