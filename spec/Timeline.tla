------------------------------ MODULE Timeline ------------------------------
(***************************************************************************)
(* A built timeline = [kfs (in insertion order), de (default easing),       *)
(* tm (timing)] plus a start override ov (per property NoOv or <<term>>).   *)
(* Eval is the code path of the derive(Animate) output: prepare_frame then  *)
(* one SubTimeline::value_at per animated field.  EvalDesign is the meaning *)
(* stated by the properties.  Results map each property to a set of terms.  *)
(***************************************************************************)
EXTENDS Keyframes, TimeScale

NoOvAll == [p \in Props |-> NoOv]

Eval(cfg, ov, t) ==
  IF cfg.kfs = <<>> THEN [p \in Props |-> {U}]                \* prepare_frame -> None
  ELSE LET ks == StableSort(cfg.kfs)
           ph == PhaseImpl(cfg.tm, t)
       IN [p \in Props |-> ImplSeg(ks, p, cfg.de, PosOf(ph), UseOverride(ph), ov[p])]

EvalDesign(cfg, ov, t) ==
  IF cfg.kfs = <<>> THEN [p \in Props |-> {U}]
  ELSE LET ks == StableSort(cfg.kfs) IN
       [p \in Props |-> DesignSeg(ks, p, cfg.de, PosDesign(cfg.tm, t),
                                  FirstForwardDesign(cfg.tm, t), ov[p])]

\* start_with(values): values is a sequence of terms, one per property
StartWith(values) == [p \in Props |-> <<values[p]>>]

\* which properties a timeline animates
Animated(cfg) == {p \in Props : \E i \in 1..Len(cfg.kfs) : Defines(cfg.kfs[i], p)}

\* metadata accessors
Delay(cfg) == cfg.tm.del
CycleOf(cfg) == cfg.tm.cyc
TotalOf(cfg) == Total(cfg.tm)
RepOf(cfg) == cfg.tm.rep

\* ---------- merged timelines (ordered overlay) -----------------------------
\* objs: sequence of [cfg, ov]
RECURSIVE MergeFold(_, _, _, _)
MergeFold(objs, t, i, acc) ==
  IF i > Len(objs) THEN acc
  ELSE LET r == Eval(objs[i].cfg, objs[i].ov, t) IN
       MergeFold(objs, t, i + 1,
                 [p \in Props |-> {IF x = U THEN prev ELSE x : x \in r[p], prev \in acc[p]}])
EvalMerged(objs, t) == MergeFold(objs, t, 1, [p \in Props |-> {U}])

RepRank(r) == IF r = -2 THEN INF ELSE IF r = -3 THEN HUGE ELSE IF r = -1 THEN 0 ELSE r
SetMin(S) == CHOOSE x \in S : \A y \in S : x <= y
SetMax(S) == CHOOSE x \in S : \A y \in S : y <= x
MDelay(objs) == IF objs = <<>> THEN 0 ELSE SetMin({objs[i].cfg.tm.del : i \in 1..Len(objs)})
MTotal(objs) == IF objs = <<>> THEN 0 ELSE SetMax({Total(objs[i].cfg.tm) : i \in 1..Len(objs)})
\* any component whose repeat has the largest rank (None and Times(0) rank equal)
MRepSet(objs) == IF objs = <<>> THEN {-1}
                 ELSE LET m == SetMax({RepRank(objs[i].cfg.tm.rep) : i \in 1..Len(objs)}) IN
                      {objs[i].cfg.tm.rep : i \in {j \in 1..Len(objs) : RepRank(objs[j].cfg.tm.rep) = m}}
\* Some(c) iff all components agree; 0 stands for None
MCycle(objs) == IF objs = <<>> THEN 0
                ELSE IF \A i \in 1..Len(objs) : objs[i].cfg.tm.cyc = objs[1].cfg.tm.cyc
                     THEN objs[1].cfg.tm.cyc ELSE 0
=============================================================================
