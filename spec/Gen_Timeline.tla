---------------------------- MODULE Gen_Timeline ----------------------------
(***************************************************************************)
(* Leg A generator: every builder state (keyframe list in insertion order)  *)
(* is printed once as a REPLAY line together with what the specification    *)
(* predicts - for a default easing and timings picked by a deterministic    *)
(* mix of the state (so that over all states every combination occurs),     *)
(* with and without start override, at EVERY tick up to past the end.       *)
(* The Rust harness builds the same timeline through the public builder     *)
(* and the derive(Animate) output and compares every evaluation.            *)
(***************************************************************************)
EXTENDS Timeline, TLC, Json

CONSTANTS MaxKf, NE, EasePool, TimingPool, Seed,
          NRand,     \* 0: enumerate every keyframe; n > 0: n pseudo-random behaviours
          PosPool    \* sequence of admissible keyframe positions (numerators over PD)

VARIABLES kfs, rng

Kind2 == <<"f", "i">>
Kind4 == <<"f", "f", "i", "i">>

\* timing pool: every shape of delay / repeat / reverse, cycles incl. non powers of two
TimingsA == <<
  [cyc |-> 4, del |-> 0, rep |-> -1, rev |-> FALSE], [cyc |-> 4, del |-> 2, rep |-> -1, rev |-> FALSE],
  [cyc |-> 4, del |-> 0, rep |-> -1, rev |-> TRUE],  [cyc |-> 8, del |-> 1, rep |-> -1, rev |-> TRUE],
  [cyc |-> 2, del |-> 0, rep |-> 0, rev |-> FALSE],  [cyc |-> 4, del |-> 3, rep |-> 1, rev |-> FALSE],
  [cyc |-> 4, del |-> 1, rep |-> 2, rev |-> TRUE],   [cyc |-> 8, del |-> 0, rep |-> 1, rev |-> TRUE],
  [cyc |-> 4, del |-> 0, rep |-> -2, rev |-> FALSE], [cyc |-> 8, del |-> 2, rep |-> -2, rev |-> TRUE],
  [cyc |-> 3, del |-> 1, rep |-> 1, rev |-> FALSE],  [cyc |-> 6, del |-> 0, rep |-> 2, rev |-> TRUE],
  [cyc |-> 1, del |-> 0, rep |-> 3, rev |-> FALSE],  [cyc |-> 16, del |-> 5, rep |-> 0, rev |-> TRUE],
  [cyc |-> 5, del |-> 2, rep |-> -1, rev |-> FALSE], [cyc |-> 2, del |-> 1, rep |-> 2, rev |-> TRUE],
  [cyc |-> 4, del |-> 1, rep |-> -3, rev |-> FALSE], [cyc |-> 2, del |-> 0, rep |-> -3, rev |-> TRUE],
  [cyc |-> 3, del |-> 0, rep |-> 16777217, rev |-> FALSE], [cyc |-> 5, del |-> 2, rep |-> 33554431, rev |-> TRUE],
  \* cycles c with fl(c * fl(1/c)) < 1 in f32 (a quotient taken through a reciprocal misses the cycle boundary)
  [cyc |-> 41, del |-> 0, rep |-> 1, rev |-> FALSE], [cyc |-> 47, del |-> 2, rep |-> -2, rev |-> FALSE] >>
EasesA == <<1, 2, 3, 11, 14, 19, 37, 30>>  \* Lin, Sq, OutSq and some built-ins (ids = harness table; 30 = InExpo)

\* distinct per insertion index and property; alternating sign so that scaled replays reach across zero
Vals(i, p) == (IF (i % 2) = 0 THEN -1 ELSE 1) * ((8 * i) + (3 * p))
AllPos == [i \in 1..(PD + 1) |-> i - 1]
\* positions 0.5 and the next f32 above it, 0.25 and the one below, ... : distinct but closer than f32::EPSILON
\* ... and 1/2^24, 2/2^24: above 0% by no more than f32::EPSILON
NearPos == <<0, 8388608, 8388609, 4194304, 4194303, 16777216, 16777215, 12582912, 1, 2>>

Kf(n, pos, dc, ei) == [pos |-> pos,
                       d |-> [p \in Props |-> IF dc[p] = 1 THEN <<Vals(n, p)>> ELSE <<>>],
                       e |-> IF ei = 0 THEN 0 ELSE EasePool[ei]]
LCG(r) == ((r * 1103) + 12345) % 65521
AddKeyframe ==
  /\ Len(kfs) < MaxKf
  /\ IF rng = 0
     THEN /\ \E pi \in 1..Len(PosPool), dc \in [Props -> {0, 1}], ei \in 0..NE : LET pos == PosPool[pi] IN
               kfs' = Append(kfs, Kf(Len(kfs) + 1, pos, dc, ei))
          /\ rng' = 0
     ELSE \* a pseudo-random keyframe drawn from the generator state
          LET r1 == LCG(rng)  r2 == LCG(r1)  r3 == LCG(r2) IN
          /\ kfs' = Append(kfs, Kf(Len(kfs) + 1, PosPool[(r1 % Len(PosPool)) + 1],
                                   [p \in Props |-> IF ((r2 \div (2 * p + 1)) % 3) = 0 THEN 0 ELSE 1],
                                   IF (r3 % 3) = 0 THEN (r3 \div 3) % (NE + 1) ELSE 0))
          /\ rng' = r3
Init == kfs = <<>> /\ rng \in (IF NRand = 0 THEN {0} ELSE {((((Seed * 7919) + (i * 104729)) % 65521) + 1) : i \in 1..NRand})
Next == AddKeyframe
Spec == Init /\ [][Next]_<<kfs, rng>>

RECURSIVE Mix(_, _)
Mix(i, acc) == IF i > Len(kfs) THEN acc
               ELSE Mix(i + 1, (acc * 31 + kfs[i].pos * 7 + kfs[i].e * 3
                                + Len(kfs[i].d[1]) + 2 * Len(kfs[i].d[NP]) + i) % 65521)
H == Mix(1, Seed)

Horizon(m) == (IF Unbounded(m) THEN m.del + m.cyc * 3 ELSE Total(m)) + m.del + 2

RECURSIVE SetToSeq(_)
SetToSeq(S) == IF S = {} THEN <<>> ELSE LET x == CHOOSE y \in S : TRUE IN <<x>> \o SetToSeq(S \ {x})

\* class of one (time, property) evaluation, used to attribute a mismatch to a property
Class(cfg, t, p) ==
  LET ks == cfg.kfs  pos == PosDesign(cfg.tm, t)
      D == {i \in 1..Len(ks) : Defines(ks[i], p)}
  IN IF D = {} THEN "U"
     ELSE IF t <= cfg.tm.del THEN "pre"
     ELSE IF ~Unbounded(cfg.tm) /\ t >= Total(cfg.tm) THEN "end"
     ELSE IF \E i \in D : KEq(ks[i].pos, pos) THEN "hit"
     ELSE "seg"

Line(de, tm, ov) ==
  LET cfg == [kfs |-> kfs, de |-> de, tm |-> tm] IN
  [kind |-> "tl", pd |-> PD, np |-> NP, kfs |-> kfs, de |-> de, tm |-> tm,
   ov |-> ov, total |-> TotalOf(cfg),
   \* evaluated at t = -3 (before time zero: still the 0% / start value) and at every tick 0..Horizon
   ts |-> [i \in 1..(Horizon(tm) + 2) |-> IF i = 1 THEN -3 ELSE i - 2],
   evals |-> [i \in 1..(Horizon(tm) + 2) |->
                LET r == Eval(cfg, ov, IF i = 1 THEN -3 ELSE i - 2) IN [p \in Props |-> SetToSeq(r[p])]],
   cls |-> [i \in 1..(Horizon(tm) + 2) |-> [p \in Props |-> Class(cfg, IF i = 1 THEN -3 ELSE i - 2, p)]]]

OvOf(h) == [p \in Props |-> <<I(70 + p + (h % 5))>>]

\* refinement (C01) also on the large pseudo-random lists: code path allowed by the CSS meaning at every
\* grid position incl. the half-steps, for two default easings, with and without override
GridR == {<<n, 2 * PD>> : n \in 0..(2 * PD)}
RefinesR ==
  LET ks == StableSort(kfs) IN
  \A p \in Props, de \in {1, 2}, pos \in GridR, useov \in BOOLEAN :
    LET ov == IF useov THEN <<I(77)>> ELSE NoOv
        im == ImplSeg(ks, p, de, pos, useov, ov)
    IN im # {} /\ im \subseteq DesignSeg(ks, p, de, pos, useov, ov)

Emit ==
  LET tm1 == TimingPool[(H % Len(TimingPool)) + 1]
      tm2 == TimingPool[((H \div 7) % Len(TimingPool)) + 1]
      de1 == EasePool[(H % Len(EasePool)) + 1]
      de2 == EasePool[((H \div 3) % Len(EasePool)) + 1]
  IN /\ PrintT(<<"REPLAY", ToJson(Line(de1, tm1, NoOvAll))>>)
     /\ PrintT(<<"REPLAY", ToJson(Line(de2, tm2, OvOf(H)))>>)
=============================================================================
