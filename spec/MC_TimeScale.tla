---------------------------- MODULE MC_TimeScale ----------------------------
(***************************************************************************)
(* C03 (and the time aspects of C02, C07, C10, C20) on the time mapping.    *)
(* One state per (timing, t): the variable t sweeps every tick for every    *)
(* timing in the bounded family.                                            *)
(***************************************************************************)
EXTENDS TimeScale, TLC

CONSTANTS Cycs, Dels, Reps, Defects

VARIABLES tm, t

RepsQuick == {-1, 0, 1, 2, -2, -3}
DelsQuick == {-3, -1, 0, 1, 3}          \* "any delay": a negative delay starts the animation before time zero
DelsThorough == {-9, -3, -1, 0, 1, 2, 3, 7, 40}
RepsThorough == {-1, 0, 1, 2, 3, 5, -2, -3}
RepsHuge == {-3, -2, 0}

Timings == [cyc : Cycs, del : Dels, rep : Reps, rev : BOOLEAN]
Horizon(m) == (IF Unbounded(m) THEN m.del + m.cyc * 4 ELSE Total(m)) + m.del + 2

Init == tm \in Timings /\ t = 0
Tick == t < Horizon(tm) /\ t' = t + 1 /\ UNCHANGED tm
Spec == Init /\ [][Tick]_<<tm, t>>

\* as-found defects of the time mapping (negative controls)
Ph(m, x) ==
  IF "C02_no_hold" \in Defects
  THEN LET ph == PhaseImpl(m, x)  y == x - m.del IN
       IF ph.k = "act" /\ m.rep # -1 /\ (y % m.cyc) = 0 /\ y >= m.cyc
       THEN [ph EXCEPT !.pn = 0, !.rv = FALSE, !.rp = TRUE] ELSE ph     \* plain modulo
  ELSE PhaseImpl(m, x)

ph == Ph(tm, t)
pos == PosOf(ph)
x == t - tm.del
C == tm.cyc

ImplIsDesign == PosEq(pos, PosDesign(tm, t)) /\ UseOverride(ph) = FirstForwardDesign(tm, t)
InRange == 0 <= pos[1] /\ pos[1] <= pos[2] /\ pos[2] >= 1
PreIff == (ph.k = "pre") <=> (t < tm.del)
EndIff == (ph.k = "end") <=> (~Unbounded(tm) /\ x > C * Cycles(tm))
\* terminal position from the total duration on, constant ever after (C02, C07)
Terminal == (~Unbounded(tm) /\ t >= Total(tm)) => PosEq(pos, IF tm.rev THEN <<0, 1>> ELSE <<1, 1>>)
\* linear rise inside a cycle: consecutive ticks differ by 1/C (2/C reversing)
Linear == (ph.k = "act" /\ Ph(tm, t + 1).k = "act" /\ (x % C) + 1 < C /\ ~((x % C) = 0 /\ x > 0)) =>
            LET q == PosOf(Ph(tm, t + 1)) IN
            IF ~tm.rev THEN q[1] * C = (pos[1] + 1) * q[2] /\ pos[2] = C
            ELSE \/ (q[1] * pos[2] - pos[1] * q[2]) * C = 2 * (q[2] * pos[2])
                 \/ (pos[1] * q[2] - q[1] * pos[2]) * C = 2 * (q[2] * pos[2])
                 \/ 2 * (x % C) < C /\ 2 * ((x % C) + 1) > C            \* straddles the apex
\* 100% is shown at the end of every forward pass, never wrapped to 0% (C02)
HoldAtEnd == (ph.k = "act" /\ ~tm.rev /\ x >= C /\ (x % C) = 0) => PosEq(pos, <<1, 1>>)
PeakAtHalf == (ph.k = "act" /\ tm.rev /\ 2 * (x % C) = C) => PosEq(pos, <<1, 1>>)
\* mirror symmetry inside a reversing cycle
Mirror == (ph.k = "act" /\ tm.rev /\ (x % C) # 0) =>
            PosEq(pos, PosOf(Ph(tm, tm.del + ((x \div C) * C) + (C - (x % C)))))
\* periodicity with period = reported cycle duration
Periodic == (ph.k = "act" /\ Ph(tm, t + C).k = "act" /\ (x % C) # 0) => PosEq(pos, PosOf(Ph(tm, t + C)))
\* flags: repeating iff a full cycle has been completed and a new one begun
Flags == ph.k = "act" =>
           /\ ph.rp = (x > C /\ tm.rep # -1)
           /\ ph.rv = (tm.rev /\ 2 * (IF (x % C) = 0 /\ x > 0 THEN C ELSE (x % C)) > C)
\* Total agrees with behaviour: terminal exactly when time since delay exceeds cycle x (repeats+1)
TotalAgrees == ((t > Total(tm)) <=> ph.k = "end")      \* Total = INF / HUGE for unbounded repeats
=============================================================================
