----------------------------- MODULE Trace_Lerp -----------------------------
(***************************************************************************)
(* Leg B for C14: results of the real Lerp::lerp, logged as integers, are   *)
(* validated against Lerp.tla.                                              *)
(*  "lerp"   integer types, exact values a, b (|.| < 2^31), x = n/d:        *)
(*           r = nearest integer of the real interpolation (either          *)
(*           neighbour on an exact tie) whenever the f32 products are exact *)
(*           (max(|a|,|b|) * d < 2^24); otherwise within one f32 spacing of *)
(*           the result; end points always exact                            *)
(*  "lerpf"  f32 / f64 on small integers and x = k/16: r = 16 * result,     *)
(*           exact                                                          *)
(*  "lerps"  64-bit types beyond 2^31: values m * 2^s (m < 4096), x = k/16: *)
(*           r = 16 * result / 2^s, exact                                   *)
(*  "lerpw"  wide ranges (multiples of 2^24) at the f32 neighbours of x = 0  *)
(*           and x = 1: exact where every f32 intermediate is exact          *)
(*  "lerpaa" lerp(a, a, x) = a where 1 - x is not an f32 number             *)
(*  "summary" float-comparison laws and glam component-wise counts          *)
(*  a record with "panic" is a violation (no panic for representable input) *)
(***************************************************************************)
EXTENDS Lerp, Json, IOUtils, TLC, Sequences

Rec == ndJsonDeserialize(IOEnv.TRACE)
VARIABLE l
Init == l = 1

Abs(v) == IF v < 0 THEN -v ELSE v
\* marks a record that is accepted only under the as-found f32 rounding (the check turns these into the known finding)
Deviation(r, i) == PrintT(<<"DEVIATION", "f32-inexact-intermediate", r.ev, r.ty, r.a, i, r.r[i]>>)
RECURSIVE Ulp(_, _)
Ulp(v, m) == IF (v \div m) < 16777216 THEN m ELSE Ulp(v, 2 * m)      \* (no product: TLC integers are 32-bit)
\* a + (b - a) * n / d without 32-bit overflow: d is a power of two <= 2^25 here and |a|,|b| < 2^31
\* exact real interpolation = q + f/d with q integer, 0 <= f < d, computed by splitting
Split(a, b, n, d) ==
  LET qa == a \div d  ra == a % d  qb == b \div d  rb == b % d      \* a = qa*d + ra, 0 <= ra < d
      \* a*(d-n) + b*n = d*(qa*(d-n) + qb*n) + ra*(d-n) + rb*n ; the last two terms < 2*d*d
      hi == qa * (d - n) + qb * n
      lo == ra * (d - n) + rb * n                                      \* < 2 * d * d : needs d <= 2^15 ...
  IN <<hi + (lo \div d), lo % d>>

CheckInt(r) ==
  LET nx == Len(r.xs) IN
  \A i \in 1..nx :
    LET n == r.xs[i][1]  d == r.xs[i][2] IN
    IF n = 0 THEN r.r[i] = r.a                                         \* lerp(a,b,0) = a exactly
    ELSE IF n = d THEN r.r[i] = r.b                                    \* lerp(a,b,1) = b exactly
    ELSE IF d <= 16 /\ Abs(r.a) < 60000000 /\ Abs(r.b) < 60000000
    THEN LET p == Num(r.a, r.b, n, d)  v == RoundHA(p, d)  u == Ulp(Abs(v), 1) IN
         IF Max(Abs(r.a), Abs(r.b)) * d < 16777216                     \* every f32 intermediate is exact:
         THEN r.r[i] = v \/ (IsTie(p, d) /\ Abs(r.r[i] - v) = 1)       \*   round to nearest, exactly
         ELSE IF r.r[i] = v \/ (IsTie(p, d) /\ Abs(r.r[i] - v) = 1) THEN TRUE
         ELSE \* as found: an f32 intermediate was rounded and the result is NOT the nearest integer - at most one
              \* f32 spacing off (reported as the known finding, never silently)
              Abs(r.r[i] - v) <= u /\ Deviation(r, i)
    ELSE \* fine x (f32 neighbours of 0, 1/2, 1) or large values: between a and b and close to the real value
         /\ Min(r.a, r.b) <= r.r[i] /\ r.r[i] <= Max(r.a, r.b)
         /\ (Abs(r.a) <= 30 /\ Abs(r.b) <= 30 /\ d = 33554432 =>
               LET p == r.a * (d - n) + r.b * n
                   t == (2 * p) % (2 * d)                       \* = d exactly on a tie
               IN \/ r.r[i] = RoundHA(p, d)                      \* nearest integer
                  \/ (Abs(t - d) <= 64 /\ Abs(r.r[i] - RoundHA(p, d)) = 1))   \* within 2^-20 of a tie: f32 cannot tell

\* "lerpaa": lerp(a, a, x) at positions x = xq / 2^30 whose complement is not an f32 number.  The law says a.
\* As found: a (1 - x) + a x is evaluated in f32, the two products are rounded separately, and from |a| >= 2^22
\* on their sum can miss a by one f32 spacing (8388607 at x = 0.252 gives 8388608).  Below 2^22 the law is exact.
CheckSame(r) ==
  \A i \in 1..Len(r.xq) :
    IF r.r[i] = r.a THEN TRUE
    ELSE Abs(r.a) >= 4194304 /\ Abs(r.r[i] - r.a) <= Ulp(Abs(r.a), 1) /\ Deviation(r, i)

\* "lerpw": a = ma * 2^24, b = mb * 2^24 (ma, mb <= 127), x = n / 2^24: the real interpolation is the integer
\* P = ma * (2^24 - n) + mb * n.  For ma, mb <= 1 both f32 products and their sum are exact (at most 24 bits), so
\* the result is P itself - in particular one step away from an end point is NOT the end point; otherwise
\* within two f32 spacings.  End points always exact.
CheckWide(r) ==
  \A i \in 1..Len(r.ns) :
    LET n == r.ns[i]  P == r.ma * (16777216 - n) + r.mb * n IN
    IF n = 0 THEN r.r[i] = r.ma * 16777216
    ELSE IF n = 16777216 THEN r.r[i] = r.mb * 16777216
    ELSE IF r.ma <= 1 /\ r.mb <= 1 THEN r.r[i] = P
    ELSE Abs(r.r[i] - P) <= 2 * Ulp(P, 1)

CheckRec(r) ==
  IF r.ev = "lerp" THEN "panic" \notin DOMAIN r /\ CheckInt(r)
  ELSE IF r.ev = "lerpf" THEN \A k \in 0..16 : r.r[k + 1] = Num(r.a, r.b, k, 16)
  ELSE IF r.ev = "lerps" THEN "panic" \notin DOMAIN r /\ \A k \in 0..16 : r.r[k + 1] = Num(r.ma, r.mb, k, 16)
  ELSE IF r.ev = "lerpw" THEN "panic" \notin DOMAIN r /\ CheckWide(r)
  ELSE IF r.ev = "lerpaa" THEN "panic" \notin DOMAIN r /\ CheckSame(r)
  ELSE r.float_bad = 0 /\ r.glam_bad = 0 /\ r.float_checked > 0 /\ r.glam_checked > 0

Step == l <= Len(Rec) /\ CheckRec(Rec[l]) /\ l' = l + 1
Spec == Init /\ [][Step]_l
PostAccepted ==
  LET d == TLCGet("stats").diameter IN
  IF d = Len(Rec) + 1 THEN TRUE ELSE Print(<<"REJECTED", d, Rec[d]>>, FALSE)
=============================================================================
