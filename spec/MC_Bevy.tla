------------------------------ MODULE MC_Bevy ------------------------------
(***************************************************************************)
(* Model-checking instance of Bevy.tla: every schedule of frame deltas and  *)
(* user operations up to MaxSteps, on a pool of entity configurations, with *)
(* every admissible system order.  Each system is its own step (pc), so the *)
(* properties are stated on the step of the system they are about.          *)
(* With EmitLines the input schedules are printed (leg A): the Bevy harness *)
(* runs each in a real App and Trace_Bevy validates what it logged.         *)
(***************************************************************************)
EXTENDS Bevy, TLC, Json

CONSTANTS KW, MaxSteps, DTs, EmitLines, OrdSel

VARIABLES w, ord, pc, dt, hist
vars == <<w, ord, pc, dt, hist>>

\* [del, tot] of the harness' timeline pool (harness_bevy POOL), ids 1..10
TLP == << [del |-> 0, tot |-> 8], [del |-> 4, tot |-> 12], [del |-> 2, tot |-> 10], [del |-> 0, tot |-> INF],
          [del |-> 3, tot |-> 9], [del |-> 0, tot |-> 6], [del |-> 8, tot |-> 24], [del |-> 0, tot |-> 1],
          [del |-> 1, tot |-> 7], [del |-> 0, tot |-> 8], [del |-> 4, tot |-> 8], [del |-> 2, tot |-> 8],
          [del |-> 0, tot |-> 8], [del |-> 1, tot |-> 8] >>    \* 13, 14: merged timelines (min delay, max total)
Cfg(keytl, chain, hassel, hasb, hase2) == [TL |-> TLP, KeyTl |-> keytl, ChainNext |-> chain, HasSel |-> hassel, HasB |-> hasb, HasE2 |-> hase2, C2Late |-> FALSE]
Worlds == <<
  [c |-> Cfg(<<0, 0, 0>>, <<0, 0, 0>>, FALSE, FALSE, FALSE), tlA |-> 2, tlB |-> 0, tlE2 |-> 0, e2first |-> FALSE, key0 |-> 1],
  [c |-> Cfg(<<0, 0, 0>>, <<0, 0, 0>>, FALSE, FALSE, FALSE), tlA |-> 4, tlB |-> 0, tlE2 |-> 0, e2first |-> FALSE, key0 |-> 1],
  [c |-> Cfg(<<0, 0, 0>>, <<0, 0, 0>>, FALSE, FALSE, TRUE),  tlA |-> 3, tlB |-> 0, tlE2 |-> 0, e2first |-> TRUE,  key0 |-> 1],  \* idle animator spawned first
  [c |-> Cfg(<<1, 2, 0>>, <<2, 0, 1>>, TRUE, TRUE, FALSE),  tlA |-> 0, tlB |-> 8, tlE2 |-> 0, e2first |-> FALSE, key0 |-> 1],
  [c |-> Cfg(<<8, 6, 14>>, <<2, 3, 1>>, TRUE, TRUE, FALSE), tlA |-> 0, tlB |-> 1, tlE2 |-> 0, e2first |-> FALSE, key0 |-> 2],  \* key 3: merged, delays 1 / 2
  [c |-> Cfg(<<5, 0, 7>>, <<0, 1, 0>>, TRUE, FALSE, TRUE),  tlA |-> 0, tlB |-> 0, tlE2 |-> 8, e2first |-> FALSE, key0 |-> 1],    \* second entity ends early
  \* a second entity, spawned FIRST, whose animator starts Playing (delay 1 = the total of key 1) on the very frame the governed one ends
  \* (its event precedes the Ended event the chain has to act on)
  [c |-> Cfg(<<8, 1, 0>>, <<2, 0, 0>>, TRUE, FALSE, TRUE),  tlA |-> 0, tlB |-> 0, tlE2 |-> 9, e2first |-> TRUE,  key0 |-> 1] >>
W0 == Worlds[KW]
Ops == IF W0.c.HasSel
       THEN [op : {"key"}, k : 1..3] \cup [op : {"enable"}, T : {"A"}, b : BOOLEAN] \cup [op : {"reset"}, T : {"A"}]
       ELSE [op : {"enable"}, T : {"A"}, b : BOOLEAN] \cup [op : {"reset"}, T : {"A"}] \cup [op : {"settl"}, T : {"A"}, id : {1, 8}]
            \cup [op : {"setpos"}, T : {"A"}, p : {0, 5}]

Init == /\ w = World0(W0.c, W0.tlA, W0.tlB, W0.tlE2, W0.key0, TRUE)
        /\ ord \in (IF OrdSel = 0 THEN Orders ELSE {CHOOSE o \in Orders : o[1] = "chain" /\ o[2] = "select" /\ o[3] = "animA"})
        /\ pc = 0 /\ dt = 0 /\ hist = <<>>

UserOp == /\ pc = 0 /\ Len(hist) < MaxSteps
          /\ (IF hist = <<>> THEN TRUE ELSE hist[Len(hist)].ev # "op")                 \* at most one operation between frames
          /\ \E o \in Ops :
               /\ w' = CASE o.op = "key" -> SetKey(w, o.k) [] o.op = "enable" -> SetEnabled(w, o.T, o.b)
                         [] o.op = "reset" -> Reset(w, o.T) [] o.op = "settl" -> SetTimeline(w, o.T, o.id)
                         [] o.op = "setpos" -> SetPos(w, o.T, o.p)
               /\ hist' = Append(hist, [ev |-> "op"] @@ o)
          /\ UNCHANGED <<ord, pc, dt>>
BeginFrame == /\ pc = 0 /\ Len(hist) < MaxSteps
              /\ \E d \in DTs : dt' = d /\ hist' = Append(hist, [ev |-> "frame", dt |-> d])
              /\ w' = [w EXCEPT !.out = <<>>, !.frame = @ + 1]
              /\ pc' = 1 /\ UNCHANGED ord
Step == /\ pc \in 1..4
        /\ w' = Sys(w, ord[pc], dt)
        /\ pc' = IF pc = 4 THEN 0 ELSE pc + 1
        /\ UNCHANGED <<ord, dt, hist>>
Next == UserOp \/ BeginFrame \/ Step
Spec == Init /\ [][Next]_vars

View == <<w, ord, pc, dt, Len(hist), IF hist # <<>> THEN hist[Len(hist)].ev ELSE "none">>

\* ---------------- C18: properties of the animate::<T> step ---------------------------------
AnimStep(T) == pc \in 1..4 /\ ord[pc] = (IF T = "B" THEN "animB" ELSE "animA") /\ (T = "B" => w.c.HasB) /\ (T = "A2" => w.c.HasE2)
Tot(a) == w.c.TL[a.tl].tot
Del(a) == w.c.TL[a.tl].del
C18Step(T) ==
  LET a0 == w.an[T]  a1 == w'.an[T]  active == a0.en /\ a0.tl # 0 IN
  /\ (~a0.en => (a1 = a0 /\ w'.cid[T] = w.cid[T]))                             \* disabled: nothing changes
  /\ (a1.pos = a0.pos + dt) \/ (a1.pos = a0.pos)
  /\ (active /\ a1.st # "Ended") => a1.pos = a0.pos + dt                      \* time conserved
  /\ (~active \/ a1.st = "Ended") => a1.pos = a0.pos                          \* stops growing once ended
  /\ active => StNo(a1.st) >= StNo(a0.st)                                     \* only moves forward
  /\ (active /\ a1.st = "Waiting") => a0.pos < Del(a0)                        \* Waiting only before the delay
  /\ (active /\ a0.pos >= Tot(a0)) => a1.st = "Ended"                         \* ended no later than one frame after
  /\ (active /\ a1.st = "Ended" /\ a0.st # "Ended") => a0.pos >= Tot(a0)      \* ... and never before
  /\ (active /\ Tot(a0) = INF) => a1.st # "Ended"                             \* never for infinite timelines
  /\ (active /\ a1.st = "Ended" /\ a0.st # "Ended" /\ (T # "A2" \/ w.hasc2)) =>     \* holds the terminal values
        (w'.cid[T][1] = "eval" /\ w'.cid[T][2] = a0.tl /\ w'.cid[T][4] >= Tot(a0))
  /\ (active /\ a0.st = "Playing" /\ (T # "A2" \/ w.hasc2)) => w'.cid[T] = <<"eval", a0.tl, a0.ovf, a0.pos>>   \* at most one frame old
  /\ Cardinality({i \in 1..Len(w'.out) : w'.out[i][1] = T}) =
       Cardinality({i \in 1..Len(w.out) : w.out[i][1] = T}) + (IF a1.st # a0.st THEN 1 ELSE 0)   \* one event per change ...
  /\ (a1.st # a0.st => \E i \in 1..Len(w'.out) : w'.out[i] = <<T, a1.st>>)      \* ... carrying the end-of-frame state
  /\ a1.runEnded <= 1                                                          \* exactly one Ended per run
C18 == [][(AnimStep("A") => C18Step("A")) /\ (AnimStep("B") => C18Step("B")) /\ (AnimStep("A2") => C18Step("A2"))]_vars

\* ---------------- C19: properties of the select / chain steps -------------------------------
SelStep == pc \in 1..4 /\ ord[pc] = "select" /\ w.c.HasSel
ChainStep == pc \in 1..4 /\ ord[pc] = "chain" /\ w.c.HasSel
C19Select ==
  LET a0 == w.an["A"]  a1 == w'.an["A"] IN
  /\ w'.cid = w.cid                                                            \* the component does not jump
  /\ (w.dirty /\ w.prev # w.key) =>                                            \* key changed: play it from its beginning
        (a1.pos = 0 /\ a1.st = "None" /\ a1.tl = w.c.KeyTl[w.key] /\ w'.prev = w.key
         /\ (a1.tl # 0 => a1.ovf = w.frame))                                   \* blended from the current values
  /\ (~w.dirty \/ w.prev = w.key) => a1 = a0                                   \* re-assigning the current key restarts nothing
\* The chain moves the key only when the GOVERNED animator has ended while playing the active
\* key and the chain has an entry for it - never merely because some Ended event arrived (another
\* animator's).  Reading recorded in DESIGN.md: the property is about the governed animator being
\* ended under key k, whichever Ended event happens to wake the system up.
C19Chain ==
  /\ w'.fired <= w.fired + 1                                                   \* at most one link per frame
  /\ w'.fired > w.fired =>
       /\ w.an["A"].st = "Ended" /\ w.prev = w.key                             \* governed animator ended under the active key
       /\ \E i \in 1..Len(w.unread) : w.unread[i][2] = "Ended" /\ w.unread[i][1] # "A2"   \* woken by an event of THIS entity
       /\ (w.c.KeyTl[w.key] # 0 => w.an["A"].tl = w.c.KeyTl[w.key])
       /\ w.c.ChainNext[w.key] # 0 /\ w'.key = w.c.ChainNext[w.key]            \* ... which has an entry
  /\ w'.fired = w.fired => w'.key = w.key
C19 == [][(SelStep => C19Select) /\ (ChainStep => C19Chain)]_vars
\* the chain fires whenever the governed animator's own Ended event arrives and no key change is pending
C19Live == [][(ChainStep /\ w.c.ChainNext[w.key] # 0 /\ w.prev = w.key /\ w.an["A"].st = "Ended"
               /\ \E i \in 1..Len(w.unread) : w.unread[i] = <<"A", "Ended">>) => w'.fired > w.fired]_vars

Emit == (EmitLines /\ pc = 0 /\ Len(hist) = MaxSteps /\ hist[Len(hist)].ev = "frame") =>
          PrintT(<<"REPLAY", ToJson([kw |-> KW, c |-> W0, ops |-> hist])>>)
=============================================================================
