SPECIFICATION Spec
CONSTANTS
  Depth = 5
  DTs = {0, 1, 3}
  K = 1
  NRand = 0
  Seed = 1
  EmitLines = TRUE
  Big = 0
  Defects = {}
INVARIANTS Emit
CHECK_DEADLOCK FALSE
