SPECIFICATION Spec
CONSTANTS
  KO = 1
  Depth = 3
  NRand = 0
  Seed = 1
  Times = {0, 1, 2, 3, 4, 5, 7, 8, 9, 11, 13, 16, 40}
  EmitLines = FALSE
INVARIANTS MetaStable OrderIrrelevant LaterWins SingleSame
CHECK_DEADLOCK FALSE
