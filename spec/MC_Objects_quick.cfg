SPECIFICATION Spec
CONSTANTS
  KO = 1
  Depth = 3
  NRand = 0
  Seed = 1
  Times = {0, 1, 2, 3, 4, 5, 7, 9, 13, 40}
  EmitLines = FALSE
INVARIANTS MetaStable OrderIrrelevant LaterWins SingleSame
CHECK_DEADLOCK FALSE
