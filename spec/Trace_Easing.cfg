SPECIFICATION Spec
POSTCONDITION PostAccepted
CHECK_DEADLOCK FALSE
