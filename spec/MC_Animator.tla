----------------------------- MODULE MC_Animator -----------------------------
(***************************************************************************)
(* Model-checking instance and leg-A generator for the state animator.      *)
(* The animator configuration is drawn from a pool (K); histories are all   *)
(* sequences of Advance(dt), dt \in DTs, and SetState(s), s \in States, up  *)
(* to Depth (exhaustive), or NRand pseudo-random histories of length Depth. *)
(* `hist` / `obs` record the behaviour for the REPLAY line and are hidden   *)
(* from the fingerprint by VIEW in the pure model-checking configs.         *)
(***************************************************************************)
EXTENDS Integers, Sequences, FiniteSets, TLC, Json

CONSTANTS Depth, DTs, K, NRand, Seed, EmitLines, Defects,
          Big     \* 0, or a first advance of this many ticks (long-lived state, then fine frames)

PD == 4
NP == 2
Kind == <<"f", "i">>
States == 1..4

Kf(pos, x, n, e) == [pos |-> pos, d |-> <<x, n>>, e |-> e]
N_ == <<>>
Tm(c, d, r, v) == [cyc |-> c, del |-> d, rep |-> r, rev |-> v]
\* timeline shapes: plain, delayed with 0% keyframe, reversing+repeating, infinite, integer-only eased, 3 keyframes
T1 == [kfs |-> <<Kf(4, <<40>>, <<9>>, 0)>>, de |-> 1, tm |-> Tm(4, 0, -1, FALSE)]
T2 == [kfs |-> <<Kf(0, <<8>>, N_, 0), Kf(4, <<80>>, N_, 0)>>, de |-> 1, tm |-> Tm(4, 2, -1, FALSE)]
T3 == [kfs |-> <<Kf(0, <<0>>, <<0>>, 0), Kf(2, N_, <<20>>, 2), Kf(4, <<16>>, N_, 0)>>, de |-> 1, tm |-> Tm(4, 0, 1, TRUE)]
T4 == [kfs |-> <<Kf(4, <<24>>, N_, 0)>>, de |-> 3, tm |-> Tm(2, 0, -2, FALSE)]
T5 == [kfs |-> <<Kf(2, N_, <<50>>, 0), Kf(4, N_, <<10>>, 0)>>, de |-> 2, tm |-> Tm(8, 1, -1, FALSE)]
T6 == [kfs |-> <<Kf(1, <<12>>, <<3>>, 0), Kf(3, <<60>>, N_, 11), Kf(4, <<30>>, <<33>>, 0)>>, de |-> 1, tm |-> Tm(8, 0, 0, FALSE)]
T7 == [kfs |-> <<Kf(4, <<64>>, N_, 0)>>, de |-> 1, tm |-> Tm(2, 1, 2, FALSE)]
\* three non-collinear keyframes of ONE property, reversing: the terminal value is the original 0% value
T8 == [kfs |-> <<Kf(0, <<100>>, N_, 0), Kf(2, <<120>>, <<5>>, 0), Kf(4, <<200>>, <<90>>, 0)>>, de |-> 1, tm |-> Tm(4, 1, 0, TRUE)]
\* opposite signs (the scaled-value replay then spans more than f32::MAX between neighbours)
T9 == [kfs |-> <<Kf(0, <<-100>>, <<-7>>, 0), Kf(4, <<100>>, <<7>>, 0)>>, de |-> 1, tm |-> Tm(4, 0, -1, FALSE)]
\* starts exactly when T1 ends (delay = T1's total duration): a sequenced pair inside one merged timeline
T10 == [kfs |-> <<Kf(0, N_, <<50>>, 0), Kf(4, N_, <<77>>, 0)>>, de |-> 1, tm |-> Tm(4, 4, -1, FALSE)]
\* timing but NO keyframes (a timed pause): nothing is written, yet the state runs for delay + cycle x (repeats + 1)
T11 == [kfs |-> <<>>, de |-> 1, tm |-> Tm(2, 1, 1, FALSE)]
T12 == [kfs |-> <<>>, de |-> 1, tm |-> Tm(2, 0, -2, FALSE)]
\* an endless loop that starts after a delay which is not a multiple of its cycle
T13 == [kfs |-> <<Kf(4, <<24>>, N_, 0)>>, de |-> 1, tm |-> Tm(4, 1, -2, FALSE)]
\* a property (n) given by the 0% keyframe only: it blends from the entry value to that value over the first pass
T14 == [kfs |-> <<Kf(0, <<8>>, <<5>>, 0), Kf(4, <<80>>, N_, 0)>>, de |-> 1, tm |-> Tm(4, 0, -1, FALSE)]
\* an endless part merged with a one-shot part of the SAME cycle length that starts later (the aggregate reports a
\* cycle duration and an infinite repeat, yet the one-shot part is not periodic)
T15 == [kfs |-> <<Kf(4, <<24>>, N_, 3)>>, de |-> 1, tm |-> Tm(4, 0, -2, FALSE)]
\* four keyframes ADDED out of order (25%, 50%, 0%, 100%): the lookup tables must follow the sorted order
T16 == [kfs |-> <<Kf(1, <<10>>, N_, 0), Kf(2, <<20>>, <<6>>, 0), Kf(0, <<-10>>, N_, 0), Kf(4, <<40>>, <<2>>, 0)>>, de |-> 1, tm |-> Tm(4, 0, -1, FALSE)]
Pool == <<
  [tls |-> <<<<T1>>, <<T2>>, <<>>, <<>>>>,          s0 |-> 1, v0 |-> <<5, 7>>],
  [tls |-> <<<<T3>>, <<T5, T4>>, <<>>, <<T1>>>>,    s0 |-> 1, v0 |-> <<5, 7>>],
  [tls |-> <<<<T2>>, <<>>, <<T6>>, <<T5>>>>,        s0 |-> 3, v0 |-> <<2, 0>>],
  [tls |-> <<<<>>, <<T7>>, <<T1, T5>>, <<>>>>,      s0 |-> 1, v0 |-> <<9, 4>>],
  [tls |-> <<<<T6>>, <<T3>>, <<>>, <<T4>>>>,        s0 |-> 2, v0 |-> <<0, 0>>],
  [tls |-> <<<<T8>>, <<>>, <<T7, T8>>, <<T2>>>>,    s0 |-> 1, v0 |-> <<3, 1>>],
  [tls |-> <<<<T9>>, <<T1, T10>>, <<>>, <<T4>>>>,   s0 |-> 1, v0 |-> <<-90, 4>>],
  [tls |-> <<<<T11>>, <<T1, T11>>, <<T12>>, <<T7>>>>, s0 |-> 1, v0 |-> <<6, 2>>],
  [tls |-> <<<<T13>>, <<T14>>, <<T15, T10>>, <<T16>>>>, s0 |-> 2, v0 |-> <<30, 9>>] >>
Cfg == Pool[K]

VARIABLES cur, ticks, paused, ov, vals, tls, hist, obs, rng

INSTANCE Animator

vars == <<cur, ticks, paused, ov, vals, tls, hist, obs, rng>>
I0(n) == <<"i", n>>
Obs == [st |-> cur', ticks |-> ticks', paused |-> paused', ended |-> IsEnded', vals |-> vals']

LCG(r) == ((r * 1103) + 12345) % 65521
Op(o) == /\ IF o.op = "adv" THEN Advance(o.dt) ELSE SetState(o.st)
         /\ hist' = Append(hist, o)
         /\ obs' = Append(obs, Obs)

Init == /\ AInit([s \in States |-> Cfg.tls[s]], Cfg.s0, [p \in 1..NP |-> I0(Cfg.v0[p])])
        /\ hist = <<>> /\ obs = <<>>
        /\ rng \in (IF NRand = 0 THEN {0} ELSE {((((Seed * 7919) + (i * 104729)) % 65521) + 1) : i \in 1..NRand})
DtSeq == CHOOSE f \in [1..Cardinality(DTs) -> DTs] : \A i, j \in 1..Cardinality(DTs) : i # j => f[i] # f[j]
Next == /\ Len(hist) < Depth
        /\ IF Big > 0 /\ hist = <<>> THEN Op([op |-> "adv", dt |-> Big]) /\ rng' = rng
           ELSE IF rng = 0
           THEN /\ \E o \in [op : {"adv"}, dt : DTs] \cup [op : {"set"}, st : States] : Op(o)
                /\ rng' = 0
           ELSE LET r1 == LCG(rng)  r2 == LCG(r1) IN
                /\ Op(IF (r1 % 5) < 3 THEN [op |-> "adv", dt |-> DtSeq[(r2 % Cardinality(DTs)) + 1]]
                      ELSE [op |-> "set", st |-> (r2 % 4) + 1])
                /\ rng' = r2
Spec == Init /\ [][Next]_vars

View == <<cur, ticks, paused, ov, vals, tls, Len(hist)>>

FrameRateFree == PartitionFree(DTs \cup {7})
EndedIff == IsEnded <=> (~HasTl(cur) \/ F32Round(ticks) >= TotalOfState(cur))
TerminalWhenEnded ==
  (HasTl(cur) /\ IsEnded) => vals = Recompute(cur, NoOvAll, TotalOfState(cur) + 1000, vals)
NeverEndedIfInfinite == (HasTl(cur) /\ \E i \in 1..Len(tls[cur]) : Unbounded(tls[cur][i].tm)) => ~IsEnded

Emit == (EmitLines /\ (Len(hist) = Depth \/ (rng # 0 /\ Len(hist) > 0 /\ (Len(hist) % 8) = 0))) =>
  PrintT(<<"REPLAY", ToJson([kind |-> "anim", pd |-> PD, np |-> NP, k |-> K, tls |-> Cfg.tls, s0 |-> Cfg.s0,
                             v0 |-> Cfg.v0, ops |-> hist, obs |-> obs])>>)
=============================================================================
