SPECIFICATION Spec
CONSTANTS
  PD = 8
  NP = 2
  Kind <- Kind2
  MaxKf = 40
  NE = 2
  EasePool <- EasesA
  TimingPool <- TimingsA
  Seed = 1
  PosPool <- AllPos
  NRand = 12
INVARIANT Emit
CHECK_DEADLOCK FALSE
