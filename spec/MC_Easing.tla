------------------------------ MODULE MC_Easing ------------------------------
EXTENDS Easing, TLC, Json
N == 64
VARIABLE id
Init == id \in Ids
Next == UNCHANGED id
Spec == Init /\ [][Next]_id
Facts == Endpoints(N) /\ XMonotone(N) /\ InRange(N) /\ YMonotone(N) /\ MirrorCP /\ ParamIsNotX(N)
\* leg A: the exact tables.  D = graph of the timing function, I = the as-found parameter evaluation
Emit == PrintT(<<"REPLAY", ToJson([kind |-> "easing", id |-> id, n |-> N, den |-> Den(N),
                                   bx |-> [k \in 1..(N + 1) |-> Bx(id, k - 1, N)],
                                   by |-> [k \in 1..(N + 1) |-> By(id, k - 1, N)],
                                   cp |-> IF id = 10 THEN <<0, 0, 100, 100>> ELSE CP[id],
                                   back |-> id \in Back])>>)
=============================================================================
