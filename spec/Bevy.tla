-------------------------------- MODULE Bevy --------------------------------
(***************************************************************************)
(* The Bevy plugin (bevy/src): one entity with up to two animated component *)
(* types "A" and "B".  Animator<A> may be governed by an                    *)
(* AnimationSelector<K, A> and an AnimationChain<K>; Animator<B> is driven  *)
(* directly.  One frame = the registered systems run in an order `ord` that *)
(* is any linear extension of the declared constraints (chain<K,A> and      *)
(* select<K,A> before animate<A>; animate<B> anywhere), fixed per App.      *)
(*                                                                          *)
(* Timelines are abstract here: TL[id] = [del, tot] in ticks (tot = INF for *)
(* an infinite one).  What a component holds is tracked as the IDENTITY of  *)
(* the last evaluation, <<"eval", timeline id, frame whose pre-update       *)
(* component values were given to start_with (or -1), position>>, so that   *)
(* the binding can re-evaluate the real timeline at exactly that point.     *)
(*                                                                          *)
(* The world is one record w:                                               *)
(*  an[T]  = [en, pos, st, tl, ovf, runEnded]   Animator<T>                  *)
(*  cid[T] = identity of component T's contents                             *)
(*  key, prev, dirty       AnimationSelector: timeline_key, previous_key,   *)
(*                         "Changed since select last ran"                  *)
(*  unread  events not yet seen by chain's EventReader: <<who, state>>      *)
(*  out     events sent during the current frame (in sending order)         *)
(*  frame   frame counter                                                   *)
(***************************************************************************)
EXTENDS Integers, Sequences, FiniteSets

CONSTANTS Defects
\* The entity's configuration is carried in the world record (w.c) so that one trace can
\* contain many differently configured Apps:
\*   TL         sequence of [del, tot]
\*   KeyTl      KeyTl[k] = timeline id played under key k (0: key without timeline)
\*   ChainNext  ChainNext[k] = next key (0: no entry)
\*   HasSel     entity has selector + chain for A
\*   HasB       entity has a second animated component type B
\*   C2Late     the second entity is spawned WITHOUT its target component (inserted later, if at all)
\*   HasE2      a SECOND entity exists, carrying only an Animator<A> ("A2" below); animate::<A> handles
\*              both entities, and its events name their entity, so they never reach the first
\*              entity's chain

INF == 1000000000
StNo(s) == CASE s = "None" -> 0 [] s = "Waiting" -> 1 [] s = "Playing" -> 2 [] s = "Ended" -> 3

\* ---------------- animate::<T> --------------------------------------------------
Animate(w, T, dt) ==
  LET a == w.an[T] IN
  IF ~a.en THEN w                                                   \* disabled: nothing changes
  ELSE IF a.tl = 0
  THEN IF a.st # "None"
       THEN [w EXCEPT !.an[T].st = "None",
                      !.unread = Append(@, <<T, "None">>), !.out = Append(@, <<T, "None">>)]
       ELSE w
  ELSE
  LET p == a.pos
      del == w.c.TL[a.tl].del
      tot == w.c.TL[a.tl].tot
      wasPlaying == a.st = "Playing"
      here == <<"eval", a.tl, a.ovf, p>>
      s1 == IF a.st = "None" THEN "Waiting" ELSE a.st
      s2 == IF s1 = "Waiting" /\ p >= del THEN "Playing" ELSE s1
      ends == p >= tot /\ s2 # "Ended"
      s3 == IF ends THEN "Ended" ELSE s2
      \* evaluated while Playing; and (after the fix) when it ends without having played
      \* ... provided the entity HAS the target component (the second entity may lack it for a while: the
      \* animator's clock and state run regardless, there is just nothing to write)
      present == T # "A2" \/ w.hasc2
      evalNow == present /\ (wasPlaying \/ (ends /\ "C18_phase_skip" \notin Defects))
      changed == s3 # a.st
      w1 == [w EXCEPT !.an[T].st = s3,
                      !.an[T].pos = IF s3 # "Ended" THEN p + dt ELSE p,
                      !.an[T].runEnded = IF ends THEN @ + 1 ELSE @,
                      \* on the frame of the Waiting -> Playing transition the property leaves the component
                      \* open (evaluated or not): <<"any", frame>>
                      !.cid[T] = IF evalNow THEN here ELSE IF present /\ s3 = "Playing" /\ ~wasPlaying THEN <<"any", w.frame>> ELSE @]
  IN IF changed THEN [w1 EXCEPT !.unread = Append(@, <<T, s3>>), !.out = Append(@, <<T, s3>>)] ELSE w1

\* ---------------- select_animation::<K, A> ----------------------------------------
Select(w) ==
  IF ~w.c.HasSel \/ ~w.dirty THEN w
  ELSE IF w.prev = w.key THEN [w EXCEPT !.dirty = FALSE]
  ELSE [w EXCEPT !.dirty = FALSE, !.prev = w.key,
                 !.an["A"].tl = w.c.KeyTl[w.key],
                 !.an["A"].ovf = IF w.c.KeyTl[w.key] = 0 THEN -1 ELSE w.frame,   \* start_with(component now)
                 !.an["A"].pos = 0, !.an["A"].st = "None", !.an["A"].runEnded = 0]

\* ---------------- chain_animations::<K, A> -----------------------------------------
RECURSIVE ChainFold(_, _, _)
ChainFold(w, evs, i) ==
  IF i > Len(evs) THEN w
  ELSE LET ev == evs[i]
           fires == /\ ev[2] = "Ended" /\ ev[1] # "A2"            \* an event of THIS entity (any of its animators)
                    /\ IF "C19_untyped_event" \in Defects THEN TRUE
                       ELSE w.an["A"].st = "Ended" /\ w.prev = w.key
                    /\ w.c.ChainNext[w.key] # 0
       IN ChainFold(IF fires THEN [w EXCEPT !.key = w.c.ChainNext[w.key], !.dirty = TRUE, !.fired = @ + 1] ELSE w,
                    evs, i + 1)
Chain(w) == IF ~w.c.HasSel THEN [w EXCEPT !.unread = <<>>]
            ELSE [ChainFold(w, w.unread, 1) EXCEPT !.unread = <<>>]

\* ---------------- one frame ----------------------------------------------------------
Sys(w, s, dt) == CASE s = "chain" -> Chain(w) [] s = "select" -> Select(w)
                   [] s = "animA" -> IF w.c.HasE2 THEN Animate(Animate(w, "A", dt), "A2", dt) ELSE Animate(w, "A", dt)
                   [] s = "animB" -> IF w.c.HasB THEN Animate(w, "B", dt) ELSE w
RECURSIVE RunSystems(_, _, _, _)
RunSystems(w, ord, dt, i) == IF i > Len(ord) THEN w ELSE RunSystems(Sys(w, ord[i], dt), ord, dt, i + 1)
Frame(w, ord, dt) == RunSystems([w EXCEPT !.out = <<>>, !.frame = @ + 1], ord, dt, 1)

Orders == { o \in [1..4 -> {"chain", "select", "animA", "animB"}] :
              /\ \A i, j \in 1..4 : i # j => o[i] # o[j]
              /\ \A i, j \in 1..4 : (o[i] = "animA" /\ o[j] \in {"chain", "select"}) => j < i }

\* ---------------- user operations between frames ------------------------------------
SetKey(w, k)      == [w EXCEPT !.key = k, !.dirty = TRUE]
SetEnabled(w, T, b) == [w EXCEPT !.an[T].en = b]
Reset(w, T)       == [w EXCEPT !.an[T].pos = 0, !.an[T].st = "None", !.an[T].runEnded = 0]
SetTimeline(w, T, id) == [w EXCEPT !.an[T].tl = id, !.an[T].ovf = -1]
\* direct write to Animator::timeline_position: the state is NOT changed (documented)
SetPos(w, T, p)    == [w EXCEPT !.an[T].pos = p]
\* the second entity's target component removed / (re-)inserted with its initial values
RmComp(w)  == [w EXCEPT !.hasc2 = FALSE, !.cid["A2"] = <<"absent">>]
AddComp(w) == [w EXCEPT !.hasc2 = TRUE, !.cid["A2"] = <<"init", w.frame>>]

NewAnimator(tl, en) == [en |-> en, pos |-> 0, st |-> "None", tl |-> tl, ovf |-> -1, runEnded |-> 0]
World0(c, tlA, tlB, tlE2, key0, enA) ==
  [c |-> c, hasc2 |-> ~c.C2Late,
   an |-> [T \in {"A", "B", "A2"} |-> IF T = "A" THEN NewAnimator(IF c.HasSel THEN 0 ELSE tlA, enA)
                                       ELSE IF T = "B" THEN NewAnimator(tlB, TRUE) ELSE NewAnimator(tlE2, TRUE)],
   cid |-> [T \in {"A", "B", "A2"} |-> <<"init">>],
   key |-> key0, prev |-> 0, dirty |-> TRUE, unread |-> <<>>, out |-> <<>>, frame |-> 0, fired |-> 0]
=============================================================================
