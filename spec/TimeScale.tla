----------------------------- MODULE TimeScale -----------------------------
(***************************************************************************)
(* Delay / repeat / reverse: elapsed time -> phase and normalised position. *)
(* Times are integer ticks.  A timing is a record                           *)
(*   [cyc |-> C >= 1, del |-> D >= 0, rep |-> r, rev |-> BOOLEAN]            *)
(* with r = -1 (Repeat::None), n >= 0 (Repeat::Times(n)), -2 (Infinite),    *)
(* -3 (Times(u32::MAX): finite, but never over inside any modelled horizon) *)
(* A phase is [k |-> "pre"|"act"|"end", pn, pd, rp, rv]: position pn/pd,    *)
(* rp = "is_repeating", rv = "is_reversing" (FALSE outside "act").          *)
(*                                                                          *)
(* PhaseImpl follows TimeScale::get_position statement by statement;        *)
(* PhaseDesign is the closed form the property C03 states.  MC_TimeScale    *)
(* checks PosOf(PhaseImpl) = PosOf(PhaseDesign) and the C03 laws; the       *)
(* integer core is also checked unbounded by Apalache (TimeScaleInt.tla).   *)
(***************************************************************************)
EXTENDS Integers

INF == 1000000000   \* stands for an infinite total duration
HUGE == 999999999   \* stands for the (finite) total of a timeline repeating u32::MAX times (rep = -3)

\* f32 rounding of a non-negative integer number of ticks (< 2^30): round-to-nearest-even to 24
\* significant bits.  Ticks are a power of two seconds, so this is exactly what converting the
\* corresponding exact time to f32 does (Duration::as_secs_f32, fl(cycle * (repeats + 1))).
RECURSIVE Ulp(_, _)
Ulp(v, m) == IF v < 16777216 * m THEN m ELSE Ulp(v, 2 * m)
F32Round(v) == IF v < 16777216 THEN v
               ELSE LET m == Ulp(v, 1)  r == v % m  b == v - r IN
                    IF 2 * r > m THEN b + m
                    ELSE IF 2 * r < m THEN b
                    ELSE IF ((b \div m) % 2) = 0 THEN b ELSE b + m

BIGREP == 1000000
Unbounded(tm) == tm.rep = -2 \/ tm.rep = -3 \/ tm.rep >= BIGREP   \* never over inside any modelled horizon
Cycles(tm) == IF tm.rep = -1 THEN 1 ELSE tm.rep + 1          \* repeats + 1 (finite)
Total(tm)  == IF tm.rep = -2 THEN INF ELSE IF tm.rep = -3 \/ tm.rep >= BIGREP THEN HUGE ELSE tm.del + tm.cyc * Cycles(tm)

\* --- implementation-shaped (time_scale.rs get_position) -------------------
PhaseImpl(tm, t) ==
  LET x == t - tm.del
      C == tm.cyc
      ended == [k |-> "end", pn |-> IF tm.rev THEN 0 ELSE 1, pd |-> 1, rp |-> FALSE, rv |-> FALSE]
      \* (cycle_time, is_repeating)
      ct == IF tm.rep = -1 THEN <<x, FALSE>>
            ELSE LET quot == x \div C  rem == x % C IN
                 IF rem = 0 /\ quot >= 1 THEN <<C, quot > 1>> ELSE <<rem, quot >= 1>>
      act == IF tm.rev
             THEN IF 2 * ct[1] > C                                   \* cycle_ratio > 0.5
                  THEN [k |-> "act", pn |-> 2 * (C - ct[1]), pd |-> C, rp |-> ct[2], rv |-> TRUE]
                  ELSE [k |-> "act", pn |-> 2 * ct[1], pd |-> C, rp |-> ct[2], rv |-> FALSE]
             ELSE [k |-> "act", pn |-> ct[1], pd |-> C, rp |-> ct[2], rv |-> FALSE]
  IN IF x < 0 THEN [k |-> "pre", pn |-> 0, pd |-> 1, rp |-> FALSE, rv |-> FALSE]
     ELSE IF tm.rep = -1 /\ x > C THEN ended
     ELSE IF tm.rep >= 0 /\ tm.rep < BIGREP /\ x > C * (tm.rep + 1) THEN ended
     ELSE act

\* prepare_frame: (position, use start override)
UseOverride(ph) == IF ph.k = "pre" THEN TRUE ELSE IF ph.k = "end" THEN FALSE ELSE ~ph.rp /\ ~ph.rv

\* --- design level (what C03 says) ----------------------------------------
\* position as a pair <<n, d>>; rises linearly over a cycle (over the first half
\* and back over the second half when reversing); holds 100% at the end of every
\* forward pass; terminal after delay + cyc * (repeats+1).
PosDesign(tm, t) ==
  LET x == t - tm.del  C == tm.cyc IN
  IF x < 0 THEN <<0, 1>>
  ELSE IF ~Unbounded(tm) /\ x > C * Cycles(tm) THEN (IF tm.rev THEN <<0, 1>> ELSE <<1, 1>>)
  ELSE LET r == x % C
           \* time within the cycle, the end of a cycle counting as its 100% instant
           c == IF r = 0 /\ x > 0 THEN C ELSE r
       IN IF ~tm.rev THEN <<c, C>>
          ELSE IF 2 * c <= C THEN <<2 * c, C>> ELSE <<2 * (C - c), C>>

FirstForwardDesign(tm, t) ==
  LET x == t - tm.del IN
  x <= 0 \/ (IF tm.rev THEN 2 * x <= tm.cyc ELSE x <= tm.cyc)

PosEq(a, b) == a[1] * b[2] = b[1] * a[2]
PosOf(ph) == <<ph.pn, ph.pd>>
=============================================================================
