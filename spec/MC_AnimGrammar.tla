--------------------------- MODULE MC_AnimGrammar ---------------------------
(***************************************************************************)
(* animator! blocks (C16): grammar, documented reading, and behaviour.      *)
(* A block is                                                               *)
(*   [def  |-> [form |-> "none" | "state" | "inline" | "expr", st, vals],   *)
(*    arms |-> << [sts |-> <<states>>, body |-> <<sentence, ...>>], ... >>] *)
(* (body of length 1 = a single timeline, longer = a bracketed merged list; *)
(* sentences as in Grammar.tla, with keyframe bodies either explicit or the *)
(* word `default`).  Reading:                                               *)
(*   initial state = def.st (the enum's Default if there is no clause);     *)
(*   initial values = the listed fields over the type's Default (inline),   *)
(*   the expression (expr), or Default (state only / no clause);            *)
(*   `default` as a keyframe body = a keyframe with ALL animated fields at  *)
(*   the initial values; `A | B => t` installs t for A and for B; a later   *)
(*   arm for the same state replaces an earlier one; unmentioned states     *)
(*   have no timeline.                                                      *)
(* The block's reading is an Animator.tla configuration; the module then    *)
(* drives it with pseudo-random histories and prints block, reading,        *)
(* history and predicted observations.  Times in ticks of 125 ms.           *)
(***************************************************************************)
EXTENDS Integers, Sequences, FiniteSets, TLC, Json

CONSTANTS NBlocks, Depth, Seed, Defects

PD == 200
NP == 4
Kind == <<"f", "f", "i", "i">>
States == 1..4

VARIABLES cur, ticks, paused, ov, vals, tls, hist, obs, rng, blk,
          dom      \* the block lies in C04's domain (distinct keyframe positions per property); outside it the
                   \* macro is still compared with the builder twin, but the model's predictions are not used
INSTANCE Animator
vars == <<cur, ticks, paused, ov, vals, tls, hist, obs, rng, blk, dom>>

LCG(r) == ((r * 1103) + 12345) % 65521
Pick(s, r) == s[(r % Len(s)) + 1]
I0(n) == <<"i", n>>

DurT == <<8, 16, 4, 2, 1, 12, 32>>          \* ticks of 125 ms: 1s, 2s, 500ms, 250ms, 125ms, 1.5s, 4s
DelT == <<0, 4, 1, 8>>
Eases == <<11, 19, 23, 10, 37>>
Positions == <<100, 50, 80, 25, 150, 20>>
ValX == <<8, -4, 100, 37, 64>>
ValN == <<9, -20, 255, 3, 40>>

\* one argument of a sentence inside an arm (positions: from / to / N%)
Arg(r) ==
  LET r1 == LCG(r)  r2 == LCG(r1)  r3 == LCG(r2)  c == r1 % 10 IN
  IF c < 2 THEN [k |-> "dur", t |-> Pick(DurT, r2), form |-> Pick(<<"s", "ms", "for_s", "for_ms">>, r3)]
  ELSE IF c = 2 THEN [k |-> "del", t |-> Pick(DelT, r2), form |-> Pick(<<"s", "ms">>, r3)]
  ELSE IF c = 3 THEN [k |-> "rep", n |-> IF (r2 % 3) = 0 THEN -2 ELSE (r2 % 3) + 1]
  ELSE IF c = 4 THEN (IF (r2 % 2) = 0 THEN [k |-> "rev"] ELSE [k |-> "ease", e |-> Pick(Eases, r3)])
  ELSE LET form == IF (r2 % 3) = 0 THEN "from" ELSE IF (r2 % 11) = 5 THEN "to" ELSE "pct"   \* (`to` also closes every sentence)
           pos == IF form = "from" THEN 0 ELSE IF form = "to" THEN PD ELSE Pick(Positions, r3)
           m == r3 % 7           \* 0: `default`; 6: an empty field list `{ }` (defines nothing)
       IN [k |-> "kf", pos |-> pos, form |-> form, dflt |-> (m = 0),
           d |-> << IF m \in {1, 2, 5} THEN <<Pick(ValX, r2 \div 4)>> ELSE <<>>,
                    IF m \in {2, 3} THEN <<Pick(ValX, r3 \div 7) + 1>> ELSE <<>>,
                    IF m \in {3, 4, 5} THEN <<Pick(ValN, r2 \div 9)>> ELSE <<>>,
                    IF m = 4 THEN <<Pick(ValN, r3 \div 3)>> ELSE <<>> >>]
RECURSIVE Sentence(_, _)
Sentence(r, n) == IF n = 0 THEN <<>> ELSE <<Arg(r)>> \o Sentence(LCG(LCG(LCG(LCG(r)))), n - 1)
\* every sentence gets at least one keyframe at the end so that the state is really animated
\* ... except that one sentence in seven is a timing-only timeline (no keyframe at all): the state is
\* then animated by a timeline that writes nothing (it still runs, ends, and is not "unmentioned")
NoKf(s) == SelectSeq(s, LAMBDA a : a.k # "kf")
SentenceK(r) == IF (r % 7) = 3 THEN NoKf(Sentence(r, 1 + (r % 4))) \o <<[k |-> "dur", t |-> Pick(DurT, r), form |-> "s"]>>
                ELSE Sentence(r, 1 + (r % 4)) \o <<[k |-> "kf", pos |-> PD, form |-> "to", dflt |-> (r % 5) = 0,
                                               d |-> <<<<Pick(ValX, r)>>, <<>>, IF (r % 2) = 0 THEN <<Pick(ValN, r)>> ELSE <<>>, <<>>>>]>>

Arm(r) ==
  LET r1 == LCG(r)  r2 == LCG(r1)  r3 == LCG(r2)
      s1 == (r1 % 4) + 1  s2 == (r2 % 4) + 1 IN
  [sts |-> IF (r3 % 3) = 0 /\ s1 # s2 THEN <<s1, s2>> ELSE <<s1>>,
   \* a bracketed (merged) body: two independent sentences, or - one time in two - a second member with exactly the
   \* first one's timing arguments that sets the same property again (later members win on shared properties)
   body |-> IF (r3 % 4) = 0
            THEN (IF (r3 % 8) = 0 THEN <<SentenceK(r2), SentenceK(LCG(r3))>>
                  ELSE <<SentenceK(r2), NoKf(SentenceK(r2)) \o <<[k |-> "kf", pos |-> 100, form |-> "pct", dflt |-> FALSE,
                                                                  d |-> <<<<Pick(ValX, r3) + 3>>, <<>>, <<>>, <<>>>>]>>>>)
            ELSE <<SentenceK(r2)>>]
RECURSIVE Arms(_, _)
Arms(r, n) == IF n = 0 THEN <<>> ELSE <<Arm(r)>> \o Arms(LCG(LCG(LCG(LCG(LCG(r))))), n - 1)

Block(r) ==
  LET r1 == LCG(r)  r2 == LCG(r1)  r3 == LCG(r2)
      form == Pick(<<"none", "state", "inline", "inline", "expr", "exprbase">>, r1)
      m == r3 % 5 IN
  [def |-> [form |-> form, st |-> IF form = "none" THEN 1 ELSE (r2 % 4) + 1,
            vals |-> IF form = "expr" \/ form = "exprbase" THEN << <<Pick(ValX, r2)>>, <<Pick(ValX, r3) + 2>>, <<Pick(ValN, r2)>>, <<Pick(ValN, r3)>> >>
                     ELSE IF form = "inline" THEN << IF m # 0 THEN <<Pick(ValX, r2)>> ELSE <<>>, IF m = 2 THEN <<5>> ELSE <<>>,
                                                     IF m > 2 THEN <<Pick(ValN, r3)>> ELSE <<>>, IF m = 4 THEN <<11>> ELSE <<>> >>
                     ELSE << <<>>, <<>>, <<>>, <<>> >>],
   arms |-> Arms(r3, 1 + (r2 % 3))]

\* ---------------- the documented reading --------------------------------------------------
V0(b) == [p \in 1..NP |-> IF b.def.vals[p] = <<>> THEN 0 ELSE b.def.vals[p][1]]
Blank == [kfs |-> <<>>, de |-> 1, tm |-> [cyc |-> 8, del |-> 0, rep |-> -1, rev |-> FALSE]]
Apply1(cfg, a, v0) ==
  CASE a.k = "dur"  -> [cfg EXCEPT !.tm.cyc = a.t]
    [] a.k = "del"  -> [cfg EXCEPT !.tm.del = a.t]
    [] a.k = "rep"  -> [cfg EXCEPT !.tm.rep = a.n]
    [] a.k = "rev"  -> [cfg EXCEPT !.tm.rev = TRUE]
    [] a.k = "ease" -> [cfg EXCEPT !.de = a.e]
    [] a.k = "kf"   -> [cfg EXCEPT !.kfs = Append(@, [pos |-> a.pos, e |-> 0,
                                                       d |-> IF a.dflt THEN [p \in 1..NP |-> <<v0[p]>>] ELSE a.d])]
RECURSIVE ReadFrom(_, _, _, _)
ReadFrom(cfg, s, i, v0) == IF i > Len(s) THEN cfg ELSE ReadFrom(Apply1(cfg, s[i], v0), s, i + 1, v0)
ReadSentence(s, v0) == ReadFrom(Blank, s, 1, v0)
ReadBody(body, v0) == [i \in 1..Len(body) |-> ReadSentence(body[i], v0)]
ReadTls(b) ==
  [s \in States |->
     LET A == {i \in 1..Len(b.arms) : \E j \in 1..Len(b.arms[i].sts) : b.arms[i].sts[j] = s} IN
     IF A = {} THEN <<>> ELSE ReadBody(b.arms[CHOOSE i \in A : \A j \in A : j <= i].body, V0(b))]

\* C04's domain: per property, the keyframes defining it sit at distinct positions
DistinctCfg(c) == \A p \in 1..NP : \A i, j \in 1..Len(c.kfs) :
                    (i # j /\ c.kfs[i].d[p] # <<>> /\ c.kfs[j].d[p] # <<>>) => c.kfs[i].pos # c.kfs[j].pos
InDomain(b) == \A s \in States : \A i \in 1..Len(ReadTls(b)[s]) : DistinctCfg(ReadTls(b)[s][i])

\* ---------------- behaviour -----------------------------------------------------------------
Obs == [st |-> cur', ticks |-> ticks', paused |-> paused', ended |-> IsEnded', vals |-> vals']
Op(o) == /\ IF o.op = "adv" THEN Advance(o.dt) ELSE SetState(o.st)
         /\ hist' = Append(hist, o) /\ obs' = Append(obs, Obs)
DTs == <<0, 1, 2, 3, 5, 8, 16>>
Init == /\ \E i \in 1..NBlocks :
             LET r == ((((Seed * 7919) + (i * 104729)) % 65521) + 1)  b == Block(r) IN
             /\ dom = InDomain(b)
             /\ blk = b /\ rng = LCG(r + 17)
             /\ AInit(ReadTls(b), b.def.st, [p \in 1..NP |-> I0(V0(b)[p])])
        /\ hist = <<>> /\ obs = <<>>
Next == /\ Len(hist) < Depth
        /\ LET r1 == LCG(rng)  r2 == LCG(r1) IN
           /\ Op(IF (r1 % 5) < 3 THEN [op |-> "adv", dt |-> Pick(DTs, r2)] ELSE [op |-> "set", st |-> (r2 % 4) + 1])
           /\ rng' = r2
        /\ blk' = blk /\ dom' = dom
Spec == Init /\ [][Next]_vars

\* states not mentioned in any arm have no timeline; `A | B` installs the same timeline for both
ReadingFacts ==
  /\ \A s \in States : (tls[s] = <<>>) <=> (\A i \in 1..Len(blk.arms) : \A j \in 1..Len(blk.arms[i].sts) : blk.arms[i].sts[j] # s)
  /\ \A i \in 1..Len(blk.arms) : \A j, k \in 1..Len(blk.arms[i].sts) :
        (\A m \in (i + 1)..Len(blk.arms) : \A n \in 1..Len(blk.arms[m].sts) :
             blk.arms[m].sts[n] # blk.arms[i].sts[j] /\ blk.arms[m].sts[n] # blk.arms[i].sts[k])
        => tls[blk.arms[i].sts[j]] = tls[blk.arms[i].sts[k]]

\* the animator properties on every Reading that lies in the domain
DomConsistent == dom => Consistent
DomNoJump == [][dom => (cur' # cur => vals' = vals)]_vars
Emit == Len(hist) = Depth =>
  PrintT(<<"REPLAY", ToJson([kind |-> "block", pd |-> PD, np |-> NP, indomain |-> dom, block |-> blk, tls |-> tls, s0 |-> blk.def.st, v0 |-> V0(blk),
                             ops |-> hist, obs |-> obs])>>)
=============================================================================
