SPECIFICATION Spec
CONSTANTS
  PD = 4
  NP = 2
  Kind <- Kind2
  MaxKf = 3
  NE = 1
  DefEasings = {1, 2}
  Defects = {}
INVARIANTS Refines HitsExact Untouched StartOnly OrderFree DupNeutral
CHECK_DEADLOCK FALSE
