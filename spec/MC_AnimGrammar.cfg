SPECIFICATION Spec
CONSTANTS
  NBlocks = 30
  Depth = 30
  Seed = 1
  Defects = {}
INVARIANTS ReadingFacts Consistent Emit
PROPERTIES NoJump PauseRules
CHECK_DEADLOCK FALSE
