SPECIFICATION Spec
CONSTANTS
  NBlocks = 30
  Depth = 30
  Seed = 1
  Defects = {}
INVARIANTS ReadingFacts DomConsistent Emit
PROPERTIES DomNoJump PauseRules
CHECK_DEADLOCK FALSE
