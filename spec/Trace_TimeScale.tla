--------------------------- MODULE Trace_TimeScale ---------------------------
(***************************************************************************)
(* Leg B for the time mapping: TLC validates observations recorded from     *)
(* the real TimeScale::get_position / Timeline::update against PhaseImpl.   *)
(*                                                                          *)
(* Every f32 is a dyadic rational, so a run fixes tick = 2^e seconds such   *)
(* that cycle, delay and every queried time are INTEGER numbers of ticks    *)
(* (< 2^29) and t - delay is exact in f32.  Then the code's comparisons,    *)
(* fmod and phase decisions are exact and the integer model predicts them   *)
(* exactly - including the f32 neighbours just below / above every phase    *)
(* boundary delay + k*cycle (which is usually not itself representable).    *)
(* Records:                                                                 *)
(*  {"ev":"cfg","cyc":C,"del":D,"rep":r,"rev":b}                            *)
(*  {"ev":"pos","t":T,"k":0|1|2,"rp":0|1,"rv":0|1,"q":round(pos*2^20),      *)
(*   "x":round(probe value), "xo":round(probe value with start_with),       *)
(*   "total_ok":0|1}                                                        *)
(***************************************************************************)
EXTENDS TimeScale, Json, IOUtils, TLC, Sequences

Rec == ndJsonDeserialize(IOEnv.TRACE)

VARIABLES l, tm
vars == <<l, tm>>

\* floor(pn * 2^20 / pd) for 0 <= pn <= pd < 2^29, without overflow
RECURSIVE Q20r(_, _, _, _)
Q20r(r, pd, q, n) == IF n = 0 THEN q
                     ELSE IF 2 * r >= pd THEN Q20r(2 * r - pd, pd, 2 * q + 1, n - 1)
                     ELSE Q20r(2 * r, pd, 2 * q, n - 1)
Q20(pn, pd) == IF pn >= pd THEN 1048576 ELSE Q20r(pn, pd, 0, 20)

\* The code compares the elapsed time with fl(cycle * (repeats+1)) computed in f32: when that
\* product needs more than 24 bits the end instant is the ROUNDED product.  This is the only place
\* where a configuration-derived quantity is rounded; it is modelled here (implementation-shaped)
\* because the property can only mean "exactly" up to the representability of that instant.
\* rep = -3 stands for a huge count (u32::MAX): never ended inside the exact range.
EndedAt(x, C, n) == n >= 0 /\ (x \div C) >= n + 1 /\ x > F32Round(C * (n + 1))

PhaseSafe(m, t) ==
  LET x == t - m.del IN
  IF x < 0 \/ m.rep = -1 \/ m.rep = -2 \/ m.rep = -3 THEN PhaseImpl(m, t)
  ELSE IF EndedAt(x, m.cyc, m.rep)
       THEN [k |-> "end", pn |-> IF m.rev THEN 0 ELSE 1, pd |-> 1, rp |-> FALSE, rv |-> FALSE]
       ELSE PhaseImpl([m EXCEPT !.rep = -2], t)         \* not ended: same as an infinite repeat

KindNo(k) == IF k = "pre" THEN 0 ELSE IF k = "act" THEN 1 ELSE 2
B2I(b) == IF b THEN 1 ELSE 0
Near(a, b, tol) == a - b <= tol /\ b - a <= tol

Init == l = 1 /\ tm = [cyc |-> 1, del |-> 0, rep |-> -1, rev |-> FALSE]

TCfg == /\ l <= Len(Rec) /\ Rec[l].ev = "cfg"
        /\ tm' = [cyc |-> Rec[l].cyc, del |-> Rec[l].del, rep |-> Rec[l].rep, rev |-> Rec[l].rev]
        /\ l' = l + 1

\* Observable through the public Timeline API: the position (probe value), and whether a substituted
\* start value is in effect (second probe with start_with(2^19): 2^19 + q/2 if so, q if not).
\* TimeScale::get_position's own phase kind and loop flags are an internal helper's view: a mismatch
\* there with identical observable behaviour (e.g. Ended(1.0) instead of Active(1.0) exactly at the
\* end instant) is reported as DRIFT, not rejected.
TPos == /\ l <= Len(Rec) /\ Rec[l].ev = "pos"
        /\ LET r == Rec[l]  ph == PhaseSafe(tm, r.t)  q == Q20(ph.pn, ph.pd) IN
           /\ "panic" \notin DOMAIN r                   \* no panic on valid input (C20)
           /\ Near(r.q, q, 2)                           \* position from get_position
           /\ Near(r.x, q, 2)                           \* position seen through Timeline::update
           /\ Near(r.xo, IF UseOverride(ph) THEN 524288 + (q \div 2) ELSE q, 2)   \* first forward pass or not
           /\ 0 <= r.q /\ r.q <= 1048576                \* in [0,1]
           /\ r.total_ok = 1                            \* duration() = delay + cycle*(repeats+1)
           /\ IF r.k = KindNo(ph.k) /\ r.rp = B2I(ph.rp) /\ r.rv = B2I(ph.rv) THEN TRUE
              ELSE PrintT(<<"DRIFT", l, r.t, r.k, KindNo(ph.k)>>)
        /\ l' = l + 1 /\ UNCHANGED tm

Next == TCfg \/ TPos
Spec == Init /\ [][Next]_vars

\* The trace is linear: one state per consumed record plus the initial state.
PostAccepted ==
  LET d == TLCGet("stats").diameter IN
  IF d = Len(Rec) + 1 THEN TRUE
  ELSE Print(<<"REJECTED", d, Rec[d]>>, FALSE)
=============================================================================
