SPECIFICATION Spec
CONSTANTS
  PD = 4
  NP = 2
  Kind <- Kind2
  MaxKf = 3
  NE = 1
  EasePool <- EasesA
  TimingPool <- TimingsA
  Seed = 1
  PosPool <- AllPos
  NRand = 0
INVARIANT Emit
CHECK_DEADLOCK FALSE
