SPECIFICATION Spec
CONSTANTS
  PD = 16
  NP = 2
  Kind <- Kind2
  MaxKf = 12
  NE = 3
  EasePool <- EasesA
  TimingPool <- TimingsA
  Seed = 1
  PosPool <- AllPos
  NRand = 120
INVARIANT Emit
CHECK_DEADLOCK FALSE
