------------------------------- MODULE MC_Lerp -------------------------------
EXTENDS Lerp, TLC
CONSTANTS Lo, Hi, D
VARIABLES a, b
LoSigned == -128
Init == a \in Lo..Hi /\ b \in Lo..Hi
Next == UNCHANGED <<a, b>>
Spec == Init /\ [][Next]_<<a, b>>
LawsHold == Laws(a, b, D)
=============================================================================
