SPECIFICATION Spec
CONSTANTS
  Depth = 6
  DTs = {0, 1, 3}
  K = 1
  NRand = 0
  Seed = 1
  EmitLines = FALSE
  Big = 0
  Defects = {"C04_stale_pause"}
INVARIANTS PauseShape

VIEW View
CHECK_DEADLOCK FALSE
