SPECIFICATION Spec
INVARIANTS Facts Emit
CHECK_DEADLOCK FALSE
