--------------------------- MODULE Trace_Animator ---------------------------
(***************************************************************************)
(* Leg B for the state animator: logs recorded from real animators with     *)
(* RANDOM configurations (random timelines per state, not the pool of       *)
(* MC_Animator) are checked to be behaviours of Animator.tla.               *)
(*  {"ev":"cfg","tls":[[cfg,..],..4 states],"s0":s,"v0":[ints]}              *)
(*  {"ev":"adv","dt":ticks, obs}      {"ev":"set","to":s,"before":[bits],   *)
(*                                     "after":[bits], obs}                 *)
(*  obs = "st","ended","ticks","paused" ([] or [state,ticks])               *)
(* TLC validates state, is_ended, the internal clock and pause record and   *)
(* the bit-identity of current_values across set_state itself; the value    *)
(* terms it predicts are printed (PRED) and compared numerically by the     *)
(* harness (judge-anim).                                                    *)
(***************************************************************************)
EXTENDS Integers, Sequences, FiniteSets, TLC, Json, IOUtils

CONSTANTS Defects
PD == 8
NP == 4
Kind == <<"f", "f", "i", "i">>
States == 1..4

Rec == ndJsonDeserialize(IOEnv.TRACE)

VARIABLES cur, ticks, paused, ov, vals, tls, l, pred, wi
INSTANCE Animator
vars == <<cur, ticks, paused, ov, vals, tls, l, pred, wi>>

I0(n) == <<"i", n>>
B2I(b) == IF b THEN 1 ELSE 0
\* the internal clock is only meaningful while the current state is animated (it is the time the
\* timeline is evaluated at); in a state without timeline nothing observable depends on it
ObsOk(r) == r.st = cur' /\ r.ended = B2I(IsEnded') /\ (tls'[cur'] # <<>> => r.ticks = ticks') /\ r.paused = paused'
Flush == IF wi > 0 THEN PrintT(<<"PRED", ToJson([world |-> wi, pred |-> pred])>>) ELSE TRUE

Init == /\ l = 1 /\ pred = <<>> /\ wi = 0
        /\ AInit([s \in States |-> <<>>], 1, [p \in 1..NP |-> I0(0)])

TCfg == /\ l <= Len(Rec) /\ Rec[l].ev = "cfg"
        /\ Flush
        /\ LET r == Rec[l] IN
           /\ tls' = [s \in States |-> r.tls[s]]
           /\ cur' = r.s0 /\ ticks' = 0 /\ paused' = <<>>
           /\ vals' = [p \in 1..NP |-> I0(r.v0[p])]
           /\ ov' = [s \in States |-> IF s = r.s0 /\ r.tls[s] # <<>> THEN StartWith([p \in 1..NP |-> I0(r.v0[p])]) ELSE NoOvAll]
        /\ pred' = <<>> /\ wi' = wi + 1 /\ l' = l + 1

TAdv == /\ l <= Len(Rec) /\ Rec[l].ev = "adv"
        /\ Advance(Rec[l].dt)
        /\ ObsOk(Rec[l])
        /\ pred' = Append(pred, vals') /\ l' = l + 1 /\ wi' = wi

TSet == /\ l <= Len(Rec) /\ Rec[l].ev = "set"
        /\ SetState(Rec[l].to)
        /\ ObsOk(Rec[l])
        /\ Rec[l].before = Rec[l].after                      \* C04: no jump, on the bit patterns
        /\ vals' = vals                                       \* ... and in the model
        /\ pred' = Append(pred, vals') /\ l' = l + 1 /\ wi' = wi

TEnd == l = Len(Rec) + 1 /\ Flush /\ l' = l + 1 /\ UNCHANGED <<cur, ticks, paused, ov, vals, tls, pred, wi>>

Next == TCfg \/ TAdv \/ TSet \/ TEnd
Spec == Init /\ [][Next]_vars

PostAccepted ==
  LET d == TLCGet("stats").diameter IN
  IF d = Len(Rec) + 2 THEN TRUE ELSE Print(<<"REJECTED", d, IF d <= Len(Rec) THEN Rec[d] ELSE "end">>, FALSE)
=============================================================================
