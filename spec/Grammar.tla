------------------------------- MODULE Grammar -------------------------------
(***************************************************************************)
(* The grammar of the timeline! macro (macros/src/fn_timeline.rs) and its   *)
(* documented reading.  A sentence is a sequence of arguments:              *)
(*  [k |-> "dur", tk, form]   N{s|ms}, optionally after `for`               *)
(*       form: "s" (seconds literal, int or float), "ms" (int or float),    *)
(*             "ms_" (underscored integer literal), "for_s", "for_ms"       *)
(*  [k |-> "del", tk, form]   after N{s|ms}                                 *)
(*  [k |-> "rep", n]          Nx   (n >= 1),  n = -2: infinite              *)
(*  [k |-> "rev"]             reverse                                       *)
(*  [k |-> "ease", e]         a path naming an easing                       *)
(*  [k |-> "kf", pos, form, d]  from {..} | to {..} | N% {..};  pos in       *)
(*       half-percents (0..200), d = per-property <<>> or <<value>>         *)
(* Reading: arguments may come in any order; a later duration / delay /     *)
(* repeat / easing replaces an earlier one; keyframes accumulate in order;  *)
(* defaults are those of the builder (1 s, no delay, no repeat, Linear).    *)
(* Times are in ticks of half a millisecond (TPM ticks per ms, so that      *)
(* fractional literals like 24.5ms are sentences too), positions in 1/200.  *)
(***************************************************************************)
EXTENDS Integers, Sequences, FiniteSets, TLC

PD == 200
NP == 4
Kind == <<"f", "f", "i", "i">>
INSTANCE Timeline

TPM == 2       \* ticks per millisecond
Blank == [kfs |-> <<>>, de |-> 1, tm |-> [cyc |-> 1000 * TPM, del |-> 0, rep |-> -1, rev |-> FALSE]]

Apply1(cfg, a) ==
  CASE a.k = "dur"  -> [cfg EXCEPT !.tm.cyc = a.tk]
    [] a.k = "del"  -> [cfg EXCEPT !.tm.del = a.tk]
    [] a.k = "rep"  -> [cfg EXCEPT !.tm.rep = a.n]
    [] a.k = "rev"  -> [cfg EXCEPT !.tm.rev = TRUE]
    [] a.k = "ease" -> [cfg EXCEPT !.de = a.e]
    [] a.k = "kf"   -> [cfg EXCEPT !.kfs = Append(@, [pos |-> a.pos, d |-> a.d, e |-> 0])]

RECURSIVE ReadFrom(_, _, _)
ReadFrom(cfg, s, i) == IF i > Len(s) THEN cfg ELSE ReadFrom(Apply1(cfg, s[i]), s, i + 1)
Reading(s) == ReadFrom(Blank, s, 1)

\* the reading does not depend on the order of the non-keyframe arguments, as long as arguments of
\* the same kind and the keyframes keep their relative order
KindsOrdered(s, t) ==
  /\ Len(s) = Len(t)
  /\ \E f \in [1..Len(s) -> 1..Len(s)] :
        /\ \A i, j \in 1..Len(s) : i # j => f[i] # f[j]
        /\ \A i \in 1..Len(s) : t[f[i]] = s[i]
        /\ \A i, j \in 1..Len(s) : (i < j /\ s[i].k = s[j].k) => f[i] < f[j]

\* well-formedness of the literal forms
WellFormed(a) ==
  CASE a.k = "dur" -> a.tk >= 1 /\ (a.form \in {"s", "for_s", "ms", "ms_", "for_ms"}) /\ (a.form = "ms_" => a.tk % TPM = 0)
    [] a.k = "del" -> a.tk >= 0
    [] a.k = "rep" -> a.n >= 1 \/ a.n = -2
    [] a.k = "kf"  -> a.pos \in 0..PD /\ (a.form = "from" => a.pos = 0) /\ (a.form = "to" => a.pos = PD)
    [] OTHER -> TRUE
=============================================================================
