-------------------------------- MODULE Lerp --------------------------------
(***************************************************************************)
(* Linear interpolation (core/src/interpolation.rs) over exact integers.    *)
(* For x = n/d:  Num(a,b,n,d) / d  is the real interpolation a + (b-a)x.    *)
(* Integer types round to nearest, half away from zero.                     *)
(***************************************************************************)
EXTENDS Integers

Num(a, b, n, d) == a * (d - n) + b * n
\* round-half-away-from-zero of p/q (q > 0)
RoundHA(p, q) == IF p >= 0 THEN (2 * p + q) \div (2 * q) ELSE -((2 * (-p) + q) \div (2 * q))
LerpI(a, b, n, d) == RoundHA(Num(a, b, n, d), d)
\* exactly half-way between two integers?
IsTie(p, q) == ((2 * p) % q = 0) /\ ((2 * p) \div q) % 2 # 0
Min(a, b) == IF a <= b THEN a ELSE b
Max(a, b) == IF a >= b THEN a ELSE b

\* the lerp laws on the model operator (checked by MC_Lerp for all 8-bit pairs)
Laws(a, b, D) ==
  /\ LerpI(a, b, 0, D) = a /\ LerpI(a, b, D, D) = b
  /\ \A n \in 0..D : LerpI(a, a, n, D) = a
  /\ \A n \in 0..D : Min(a, b) <= LerpI(a, b, n, D) /\ LerpI(a, b, n, D) <= Max(a, b)
  /\ \A n \in 0..(D - 1) : IF a <= b THEN LerpI(a, b, n, D) <= LerpI(a, b, n + 1, D)
                                      ELSE LerpI(a, b, n, D) >= LerpI(a, b, n + 1, D)
  /\ \A n \in 0..D : LET v == LerpI(a, b, n, D) IN                        \* nearest integer
                     2 * (v * D - Num(a, b, n, D)) <= D /\ 2 * (Num(a, b, n, D) - v * D) <= D
=============================================================================
