SPECIFICATION Spec
CONSTANTS
  Lo = 0
  Hi = 255
  D = 16
INVARIANT LawsHold
CHECK_DEADLOCK FALSE
