SPECIFICATION Spec
CONSTANTS
  KW = 4
  MaxSteps = 5
  DTs = {0, 1, 3, 1000}
  EmitLines = TRUE
  OrdSel = 1
  Defects = {}
INVARIANT Emit

CHECK_DEADLOCK FALSE
