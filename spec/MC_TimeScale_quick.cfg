SPECIFICATION Spec
CONSTANTS
  Cycs = {1, 2, 3, 4, 6, 8}
  Dels <- DelsQuick
  Reps <- RepsQuick
  Defects = {}
INVARIANTS ImplIsDesign InRange PreIff EndIff Terminal Linear HoldAtEnd PeakAtHalf Mirror Periodic Flags TotalAgrees
CHECK_DEADLOCK FALSE
