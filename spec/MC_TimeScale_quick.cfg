SPECIFICATION Spec
CONSTANTS
  Cycs = {1, 2, 3, 4, 6, 8}
  Dels = {0, 1, 3}
  Reps <- RepsQuick
  Defects = {}
INVARIANTS ImplIsDesign InRange PreIff EndIff Terminal Linear HoldAtEnd PeakAtHalf Mirror Periodic Flags TotalAgrees
CHECK_DEADLOCK FALSE
