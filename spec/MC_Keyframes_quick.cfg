SPECIFICATION Spec
CONSTANTS
  PD = 4
  NP = 2
  Kind <- Kind2
  MaxKf = 2
  NE = 2
  DefEasings = {1, 2}
  Defects = {}
INVARIANTS Refines HitsExact Untouched StartOnly OrderFree DupNeutral
CHECK_DEADLOCK FALSE
