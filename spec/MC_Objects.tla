----------------------------- MODULE MC_Objects -----------------------------
(***************************************************************************)
(* Timelines as objects (C09, C12): a state machine over a small heap of    *)
(* timeline objects - each a (possibly merged) list of component cfgs plus  *)
(* one start override - with the public operations                          *)
(*   upd(o, t, g)   update(target g, t): evaluate into a target with prior   *)
(*                  contents g at an arbitrary (non-monotone) time           *)
(*   sw(o, v)       start_with(values v)                                     *)
(*   clone(o)       clone                                                    *)
(* The specification's object is IMMUTABLE under upd: the predicted result  *)
(* is a function of (components, override, t) only - that is C09 - and a    *)
(* merged object is the ordered overlay of its components with aggregate    *)
(* metadata - that is C12.  Behaviours are printed with their predictions   *)
(* and replayed on real P4Timeline / MergedTimeline objects.                *)
(***************************************************************************)
EXTENDS Integers, Sequences, FiniteSets, TLC, Json

CONSTANTS KO, Depth, NRand, Seed, Times, EmitLines

PD == 4
NP == 4
Kind == <<"f", "f", "i", "i">>
INSTANCE Timeline

VARIABLES objs, hist, obs, rng
vars == <<objs, hist, obs, rng>>

N_ == <<>>
Kf(pos, x, y, n, m, e) == [pos |-> pos, d |-> <<x, y, n, m>>, e |-> e]
Tm(c, d, r, v) == [cyc |-> c, del |-> d, rep |-> r, rev |-> v]
OP1 == [kfs |-> <<Kf(0, <<8>>, N_, N_, N_, 0), Kf(4, <<80>>, N_, <<9>>, N_, 0)>>, de |-> 1, tm |-> Tm(4, 0, -1, FALSE)]
OP2 == [kfs |-> <<Kf(2, N_, <<20>>, N_, N_, 0), Kf(4, N_, <<4>>, N_, N_, 0)>>, de |-> 2, tm |-> Tm(4, 2, -1, FALSE)]
OP3 == [kfs |-> <<Kf(0, <<0>>, <<0>>, N_, N_, 0), Kf(2, N_, <<30>>, N_, N_, 3), Kf(4, <<16>>, N_, N_, N_, 0)>>, de |-> 1, tm |-> Tm(4, 0, 1, TRUE)]
OP4 == [kfs |-> <<Kf(4, N_, N_, <<50>>, <<7>>, 0)>>, de |-> 1, tm |-> Tm(2, 0, -2, FALSE)]
OP5 == [kfs |-> <<Kf(1, <<12>>, N_, N_, N_, 0), Kf(3, <<60>>, N_, N_, N_, 12), Kf(4, <<30>>, N_, N_, N_, 0)>>, de |-> 1, tm |-> Tm(8, 0, 2, FALSE)]
OP6 == [kfs |-> <<Kf(0, N_, N_, N_, <<3>>, 0), Kf(4, <<5>>, N_, N_, <<33>>, 0)>>, de |-> 1, tm |-> Tm(6, 1, 0, TRUE)]
OP7 == [kfs |-> <<Kf(0, N_, <<6>>, <<2>>, N_, 0)>>, de |-> 1, tm |-> Tm(4, 3, 3, FALSE)]
OP8 == [kfs |-> <<Kf(4, <<7>>, N_, N_, N_, 0)>>, de |-> 1, tm |-> Tm(2, 0, -3, FALSE)]
\* two properties with DIFFERENT custom easings over the same segment (evaluated back to back at the same x)
OP9 == [kfs |-> <<Kf(0, <<4>>, N_, N_, N_, 2), Kf(0, N_, <<6>>, N_, N_, 3), Kf(0, N_, N_, <<1>>, N_, 4), Kf(4, <<44>>, <<66>>, <<81>>, N_, 0)>>, de |-> 1, tm |-> Tm(8, 0, 1, FALSE)]
\* a step: two keyframes of one property at the same position (there the properties allow either value, but the
\* same object must keep giving the same one whatever was evaluated before)
OP10 == [kfs |-> <<Kf(0, <<8>>, N_, <<1>>, N_, 0), Kf(2, <<20>>, N_, <<5>>, N_, 0), Kf(2, <<50>>, N_, N_, N_, 0), Kf(4, <<80>>, N_, <<9>>, N_, 0)>>, de |-> 1, tm |-> Tm(4, 1, 1, FALSE)]
\* a part that starts three cycles late and repeats three times, next to an endless part of the same cycle length
OP11 == [kfs |-> <<Kf(0, <<3>>, N_, N_, N_, 0), Kf(4, <<21>>, N_, N_, N_, 0)>>, de |-> 1, tm |-> Tm(2, 6, 3, FALSE)]
ObjPool == << <<OP1>>, <<OP3>>, <<OP1, OP2>>, <<OP2, OP3>>, <<OP4, OP5, OP6>>, <<>>, <<OP5>>, <<OP6, OP1>>, <<OP7, OP3, OP4>>, <<OP2, OP7>>, <<OP9>>, <<OP9, OP2>>, <<OP10>>, <<OP4, OP11>> >>
ValPool == << <<70, 71, 72, 73>>, <<-5, 0, 100, 1>>, <<8, 20, 9, 3>> >>

I0(n) == <<"i", n>>
MkObjs(o) == [i \in 1..Len(o.comps) |-> [cfg |-> o.comps[i], ov |-> o.ov]]
ObjEval(o, t) == EvalMerged(MkObjs(o), t)
RECURSIVE SetToSeq(_)
SetToSeq(S) == IF S = {} THEN <<>> ELSE LET x == CHOOSE y \in S : TRUE IN <<x>> \o SetToSeq(S \ {x})
\* metadata of MergedTimeline::of([MergedTimeline::of([]), MergedTimeline::of(comps)]): the empty group reports
\* delay 0, total 0, Repeat::None and NO cycle duration, so the nesting has the smallest delay 0, the same
\* total, a repeat of the same rank and an undefined cycle duration (a leading undefined component counts)
NestedMeta(o) == [delay |-> 0, total |-> MTotal(MkObjs(o)),
                  reps |-> SetToSeq(MRepSet(MkObjs(o)) \cup (IF \A r \in MRepSet(MkObjs(o)) : RepRank(r) = 0 THEN {-1} ELSE {})),
                  cycle |-> 0]
Meta(o) == [delay |-> MDelay(MkObjs(o)), total |-> MTotal(MkObjs(o)), reps |-> SetToSeq(MRepSet(MkObjs(o))),
            cycle |-> MCycle(MkObjs(o)), n |-> Len(o.comps), nested |-> NestedMeta(o)]

LCG(r) == ((r * 1103) + 12345) % 65521
TimesX == Times \cup {-3}            \* also before time zero (a cfg file cannot hold a negative number)
TimeSeq == SetToSeq(TimesX)

Apply(o) ==
  /\ hist' = Append(hist, o)
  /\ IF o.op = "upd"
     THEN /\ objs' = objs                                           \* evaluating does not change the timeline
          /\ obs' = Append(obs, [vals |-> [p \in 1..NP |-> SetToSeq(ObjEval(objs[o.o], o.t)[p])], meta |-> Meta(objs[o.o])])
     ELSE IF o.op = "sw"
     THEN /\ objs' = [objs EXCEPT ![o.o].ov = StartWith([p \in 1..NP |-> I0(ValPool[o.v][p])])]   \* latest replaces
          /\ obs' = Append(obs, [vals |-> <<>>, meta |-> Meta(objs'[o.o])])                        \* timing untouched
     ELSE /\ objs' = Append(objs, objs[o.o])                        \* clone: an independent equal object
          /\ obs' = Append(obs, [vals |-> <<>>, meta |-> Meta(objs[o.o])])

AllOps == [op : {"upd"}, o : 1..Len(objs), t : TimesX, g : 0..2] \cup [op : {"sw"}, o : 1..Len(objs), v : 1..Len(ValPool)]
          \cup (IF Len(objs) < 3 THEN [op : {"clone"}, o : 1..Len(objs)] ELSE {})

\* KO = 0: every list of 0..3 components over the 8 shapes (all orders, with repetition)
OPs == {OP1, OP2, OP3, OP4, OP5, OP6, OP7, OP8}
AllCombos == UNION {[1..n -> OPs] : n \in 0..3}
Init == /\ objs \in (IF KO = 0 THEN {<<[comps |-> c, ov |-> NoOvAll]>> : c \in AllCombos}
                      ELSE {<<[comps |-> ObjPool[KO], ov |-> NoOvAll]>>})
        /\ hist = <<>> /\ obs = <<>>
        /\ rng \in (IF NRand = 0 THEN {0} ELSE {((((Seed * 7919) + (i * 104729)) % 65521) + 1) : i \in 1..NRand})
Next == /\ Len(hist) < Depth
        /\ IF rng = 0 THEN (\E o \in AllOps : Apply(o)) /\ rng' = 0
           ELSE LET r1 == LCG(rng)  r2 == LCG(r1)  r3 == LCG(r2)
                    oi == (r2 % Len(objs)) + 1 IN
                /\ Apply(IF (r1 % 8) < 5 THEN [op |-> "upd", o |-> oi, t |-> TimeSeq[(r3 % Len(TimeSeq)) + 1], g |-> r3 % 3]
                         ELSE IF (r1 % 8) < 7 \/ Len(objs) >= 3 THEN [op |-> "sw", o |-> oi, v |-> (r3 % Len(ValPool)) + 1]
                         ELSE [op |-> "clone", o |-> oi])
                /\ rng' = r3
Spec == Init /\ [][Next]_vars

\* ---- model-level statements -------------------------------------------------------------
\* C09: start_with never touches timing metadata, whatever the history
MetaStable == \A i \in 1..Len(objs) : Meta(objs[i]) = Meta([objs[i] EXCEPT !.ov = NoOvAll])
\* C12: with pairwise disjoint property sets the order of the components is irrelevant
Disjoint(cs) == \A i, j \in 1..Len(cs) : i # j => Animated(cs[i]) \cap Animated(cs[j]) = {}
Rev(s) == [i \in 1..Len(s) |-> s[Len(s) + 1 - i]]
OrderIrrelevant ==
  \A i \in 1..Len(objs) : Disjoint(objs[i].comps) =>
    \A t \in Times : ObjEval(objs[i], t) = ObjEval([objs[i] EXCEPT !.comps = Rev(@)], t)
\* C12: later components win on shared properties
LaterWins ==
  \A i \in 1..Len(objs), t \in Times, p \in 1..NP :
    LET cs == objs[i].comps
        last == {j \in 1..Len(cs) : p \in Animated(cs[j])}
    IN last # {} =>
         LET j == CHOOSE k \in last : \A m \in last : m <= k IN
         \* the last component animating p decides, unless it leaves p untouched at that time (cannot: animated => defined)
         ObjEval(objs[i], t)[p] = Eval(cs[j], objs[i].ov, t)[p]
\* C12: a single wrapped timeline is the timeline
SingleSame == \A i \in 1..Len(objs) : Len(objs[i].comps) = 1 =>
                \A t \in Times : ObjEval(objs[i], t) = Eval(objs[i].comps[1], objs[i].ov, t)

Emit == (EmitLines /\ Len(hist) = Depth) =>
  PrintT(<<"REPLAY", ToJson([kind |-> "obj", pd |-> PD, np |-> NP, ko |-> KO, comps |-> objs[1].comps, vals |-> ValPool,
                             ops |-> hist, obs |-> obs])>>)
=============================================================================
