---------------------------- MODULE MC_Keyframes ----------------------------
(***************************************************************************)
(* The keyframe builder as a state machine: AddKeyframe in any order, any   *)
(* position (repeats allowed), any subset of properties, optional easing.   *)
(* Invariants (checked in every reachable builder state, i.e. for every     *)
(* keyframe list within the bounds, for every default easing, every grid    *)
(* position incl. the half-steps strictly inside every segment, with and    *)
(* without start override):                                                 *)
(*   Refines    ImplSeg (code) is allowed by DesignSeg (C01 meaning)        *)
(*   HitsExact  C02: a uniquely defined keyframe position yields its value  *)
(*   Untouched  C08: no defining keyframe => U, at every position           *)
(*   StartOnly  C10: the override matters only below the 2nd frame, and     *)
(*              yields exactly v at 0%                                      *)
(*   OrderFree  C11: result depends on the bag of keyframes (distinct pos.) *)
(*   DupNeutral a keyframe repeated directly after itself changes nothing    *)
(***************************************************************************)
EXTENDS Timeline, TLC

CONSTANTS MaxKf, NE, DefEasings, Defects

VARIABLES kfs

Kind2 == <<"f", "i">>
Kind1 == <<"f">>

Vals(i, p) == 8 * i + 3 * p          \* distinct per insertion index and property
DataChoices(i) == [Props -> {0, 1}]  \* 1 = defines

AddKeyframe ==
  /\ Len(kfs) < MaxKf
  /\ \E pos \in 0..PD, dc \in DataChoices(0), e \in 0..NE :
       kfs' = Append(kfs, [pos |-> pos,
                           d |-> [p \in Props |-> IF dc[p] = 1 THEN <<Vals(Len(kfs) + 1, p)>> ELSE <<>>],
                           e |-> e])
Init == kfs = <<>>
Next == AddKeyframe
Spec == Init /\ [][Next]_kfs

\* as-found C11 defect: boundary times taken before the sort
Boundary(ks) == IF "C11_unsorted_boundaries" \in Defects THEN kfs ELSE ks

Grid == {<<n, 2 * PD>> : n \in 0..(2 * PD)}
OvChoices == {NoOv, <<I(77)>>}
Sorted == StableSort(kfs)

ImplUnderTest(ks, p, de, pos, useov, ov) ==
  IF "C11_unsorted_boundaries" \in Defects
  THEN LET st == Sub(ks, p, de) IN
       IF st.map = <<>> THEN {U}
       ELSE {ImplAt(Kind[p], st, mi, pos, useov, ov) : mi \in MasterIdxSet(kfs, pos)}
  ELSE ImplSeg(ks, p, de, pos, useov, ov)

Refines ==
  \A p \in Props, de \in DefEasings, pos \in Grid, useov \in BOOLEAN, ov \in OvChoices :
    LET im == ImplUnderTest(Sorted, p, de, pos, useov, ov)
        ds == DesignSeg(Sorted, p, de, pos, useov, ov)
    IN im # {} /\ im \subseteq ds

DistinctPos(p) == \A i, j \in 1..Len(kfs) :
  (i # j /\ Defines(kfs[i], p) /\ Defines(kfs[j], p)) => kfs[i].pos # kfs[j].pos

HitsExact ==
  \A p \in Props, de \in DefEasings, i \in 1..Len(kfs) :
    (Defines(kfs[i], p) /\ DistinctPos(p)) =>
      ImplSeg(Sorted, p, de, <<kfs[i].pos, PD>>, FALSE, NoOv) = {ValOf(kfs[i], p)}

Untouched ==
  \A p \in Props :
    (\A i \in 1..Len(kfs) : ~Defines(kfs[i], p)) =>
      \A de \in DefEasings, pos \in Grid, useov \in BOOLEAN, ov \in OvChoices :
        ImplSeg(Sorted, p, de, pos, useov, ov) = {U}

\* position of the second frame of p (first defining keyframe above 0%), PD if none
SecondPos(p) ==
  LET S == {kfs[i].pos : i \in {j \in 1..Len(kfs) : Defines(kfs[j], p) /\ kfs[j].pos > 0}} IN
  IF S = {} THEN PD ELSE CHOOSE x \in S : \A y \in S : x <= y

StartOnly ==
  \A p \in Props, de \in DefEasings :
    (DistinctPos(p) /\ \E i \in 1..Len(kfs) : Defines(kfs[i], p)) =>
      /\ ImplSeg(Sorted, p, de, <<0, 1>>, TRUE, <<I(77)>>) = {I(77)}
      /\ \A pos \in Grid :
           \/ KLt(pos[1] * PD, <<SecondPos(p) * pos[2], 1>>)   \* pos < second frame
           \/ ImplSeg(Sorted, p, de, pos, TRUE, <<I(77)>>) = ImplSeg(Sorted, p, de, pos, FALSE, NoOv)

\* A keyframe added again directly after itself (n copies) takes no part in anything: same CSS meaning and the
\* code path stays inside it, at every position.  Basis of the harness's large-count pass, which replays
\* behaviours with one keyframe repeated 66 000 times (more than 2^16 frames of one property).
DupAt(s, j, n) == SubSeq(s, 1, j) \o [i \in 1..n |-> s[j]] \o SubSeq(s, j + 1, Len(s))
DupNeutral ==
  \A j \in 1..Len(kfs), n \in {2} :
    LET d == StableSort(DupAt(kfs, j, n)) IN
    \A p \in Props, de \in DefEasings, pos \in Grid, useov \in BOOLEAN, ov \in OvChoices :
      \* (a substituted start value replaces the FIRST 0% keyframe only, so copies at 0% are not neutral under it)
      (kfs[j].pos > 0 \/ ~useov \/ ov = NoOv) =>
        /\ DesignSeg(d, p, de, pos, useov, ov) = DesignSeg(Sorted, p, de, pos, useov, ov)
        /\ ImplSeg(d, p, de, pos, useov, ov) \subseteq DesignSeg(Sorted, p, de, pos, useov, ov)

AllDistinct == \A i, j \in 1..Len(kfs) : i # j => kfs[i].pos # kfs[j].pos
\* C11: any permutation gives the same sorted list when positions are distinct,
\* so it suffices that evaluation goes through Sorted only - stated here as: the
\* result for the insertion order equals the result for the ascending order.
OrderFree ==
  AllDistinct =>
    \A p \in Props, de \in DefEasings, pos \in Grid :
      ImplUnderTest(Sorted, p, de, pos, FALSE, NoOv) = ImplSeg(Sorted, p, de, pos, FALSE, NoOv)
=============================================================================
