------------------------------ MODULE MC_Shapes ------------------------------
(***************************************************************************)
(* derive(Animate) for a family of struct shapes (C17).                     *)
(* A shape has six slots; slot p is absent or a field of a numeric type:    *)
(* slots 1..3 float-typed (f32 / f64), slots 4..6 integer-typed (u8 / i16 / *)
(* i32 / u32) - so that the kind of property p is fixed (Kind below) while  *)
(* number, types, order and marking of the fields vary.  Each present field *)
(* is marked #[animate] or not; if NO field is marked, all are animated.    *)
(* Decorations that must not matter: doc comments before the marker, other  *)
(* attributes on excluded fields, visibility, and local vs. remote          *)
(* (#[animate(remote = "...")]) derivation.                                 *)
(* Predicted: the animated set (= the setters that exist = the fields       *)
(* keyframe_from copies), evaluation per Timeline.tla with the field's      *)
(* kind, properties outside the animated set untouched, metadata.           *)
(***************************************************************************)
EXTENDS Integers, Sequences, FiniteSets, TLC, Json

CONSTANTS NShapes, Seed

PD == 8
NP == 6
Kind == <<"f", "f", "f", "i", "i", "i">>
INSTANCE Timeline

VARIABLES shape, cfg, rng
vars == <<shape, cfg, rng>>

LCG(r) == ((r * 1103) + 12345) % 65521
Pick(s, r) == s[(r % Len(s)) + 1]
FTypes == <<"f32", "f64">>
ITypes == <<"u8", "i16", "i32", "u32">>

RECURSIVE Draw(_, _)
Draw(r, n) == IF n = 0 THEN <<>> ELSE <<r>> \o Draw(LCG(r), n - 1)

MkShape(r) ==
  LET d == Draw(LCG(r), 14) IN
  [slots |-> [p \in 1..NP |->
                IF (d[p] % 3) = 0 /\ p # ((d[13] % 6) + 1) THEN [ty |-> "none", mark |-> FALSE, doc |-> FALSE, attr |-> 0]
                ELSE [ty |-> IF p <= 3 THEN Pick(FTypes, d[p] \div 3) ELSE Pick(ITypes, d[p] \div 3),
                      mark |-> (d[p + 6] % 2) = 0,
                      doc |-> (d[p + 6] % 3) = 0,                 \* doc comment before the field's attributes
                      attr |-> (d[p + 6] \div 5) % 4]],           \* 0 none, 1 #[allow(dead_code)], 2 #[rustfmt::skip], 3 #[doc(hidden)]
   markmode |-> d[14] % 4,                                        \* 0: nobody marked (=> all animated); else: use the marks
   remote |-> (d[13] % 3) = 0,
   vis |-> d[13] % 3,                                             \* 0 private, 1 pub, 2 pub(crate)
   order |-> d[14] % 6]                                           \* rotation of the field order in the source

Present(sh) == {p \in 1..NP : sh.slots[p].ty # "none"}
Marked(sh) == IF sh.markmode = 0 THEN {} ELSE {p \in Present(sh) : sh.slots[p].mark}
\* derive(Animate): the #[animate] fields, or all fields if none is marked
AnimatedSet(sh) == IF Marked(sh) = {} THEN Present(sh) ELSE Marked(sh)

\* keyframes only ever set animated fields (the other setters do not exist)
MkCfg(r, sh) ==
  LET d == Draw(LCG(LCG(r)), 24)
      A == AnimatedSet(sh)
      Kf(i) == [pos |-> Pick(<<0, 8, 4, 2, 6, 1>>, d[i]), e |-> IF (d[i + 4] % 3) = 0 THEN Pick(<<11, 19, 2>>, d[i + 8]) ELSE 0,
                d |-> [p \in 1..NP |-> IF p \in A /\ ((d[i + 12] \div p) % 2) = 0 THEN <<((d[i + 16] + 7 * p) % 200) + 1>> ELSE <<>>]]
      n == 1 + (d[21] % 4)
  IN [kfs |-> [i \in 1..n |-> Kf(i)], de |-> Pick(<<1, 1, 14, 3>>, d[22]),
      tm |-> Pick(<< [cyc |-> 4, del |-> 0, rep |-> -1, rev |-> FALSE], [cyc |-> 8, del |-> 2, rep |-> 1, rev |-> TRUE],
                     [cyc |-> 2, del |-> 1, rep |-> -2, rev |-> FALSE], [cyc |-> 6, del |-> 0, rep |-> 2, rev |-> FALSE],
                     [cyc |-> 4, del |-> 1, rep |-> 0, rev |-> TRUE],
                     [cyc |-> 4, del |-> 1, rep |-> -3, rev |-> FALSE] >>, d[23])]      \* (-3: Repeat::Times(u32::MAX))

Init == \E i \in 1..NShapes :
          LET r == ((((Seed * 7919) + (i * 104729)) % 65521) + 1) IN
          /\ shape = MkShape(r) /\ Present(MkShape(r)) # {}
          /\ cfg = MkCfg(r, MkShape(r)) /\ rng = r
Next == UNCHANGED vars
Spec == Init /\ [][Next]_vars

\* model-level: what the timeline touches is exactly what the keyframes define, inside the animated set
OnlyAnimated == \A t \in 0..20, p \in 1..NP : p \notin AnimatedSet(shape) => Eval(cfg, NoOvAll, t)[p] = {U}
NonEmpty == AnimatedSet(shape) # {} /\ AnimatedSet(shape) \subseteq Present(shape)

RECURSIVE SetToSeq(_)
SetToSeq(S) == IF S = {} THEN <<>> ELSE LET x == CHOOSE y \in S : TRUE IN <<x>> \o SetToSeq(S \ {x})
RECURSIVE SortedSeq(_)
SortedSeq(S) == IF S = {} THEN <<>> ELSE LET x == CHOOSE y \in S : \A z \in S : y <= z IN <<x>> \o SortedSeq(S \ {x})
Horizon(m) == (IF Unbounded(m) THEN m.del + m.cyc * 3 ELSE Total(m)) + m.del + 2
Emit == PrintT(<<"REPLAY", ToJson([kind |-> "shape", pd |-> PD, np |-> NP, shape |-> shape, animated |-> SortedSeq(AnimatedSet(shape)),
                                   kfs |-> cfg.kfs, de |-> cfg.de, tm |-> cfg.tm, ov |-> NoOvAll, total |-> TotalOf(cfg),
                                   evals |-> [i \in 1..(Horizon(cfg.tm) + 1) |-> LET r == Eval(cfg, NoOvAll, i - 1) IN [p \in Props |-> SetToSeq(r[p])]]])>>)
=============================================================================
